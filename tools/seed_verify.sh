#!/bin/bash
# usage: tools/seed_verify.sh <worktree> <seed-id>
# Confirms a sub-agent's seeded change: suite passes with it, demo fails with
# it and passes without it; then stores it under /verif/seeded/<id>/.
set -u
wt=$1; id=$2
cd "$wt" || exit 3
git diff -- sqlparse > /dev/shm/seed.$id.diff
[ -s /dev/shm/seed.$id.diff ] || { echo "no change in worktree"; exit 3; }
echo "== suite with change:"; timeout 900 /venv/bin/python -m pytest -q -p no:cacheprovider tests 2>&1 | tail -1
echo "== demo with change:"; timeout 600 /venv/bin/python demo.py > /dev/shm/seed.$id.with 2>&1; echo "exit=$?"; tail -3 /dev/shm/seed.$id.with
git apply -R /dev/shm/seed.$id.diff
echo "== demo without change:"; timeout 600 /venv/bin/python demo.py > /dev/shm/seed.$id.without 2>&1; echo "exit=$?"; tail -2 /dev/shm/seed.$id.without
git apply /dev/shm/seed.$id.diff
mkdir -p /verif/seeded/$id
cp /dev/shm/seed.$id.diff /verif/seeded/$id/patch.diff
cp demo.py /verif/seeded/$id/demo.py
[ -f NOTES.md ] && cp NOTES.md /verif/seeded/$id/NOTES.md
rm -f /dev/shm/seed.$id.*
