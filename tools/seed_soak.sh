#!/bin/bash
# usage: tools/seed_soak.sh <first-seed> <last-seed> [tier]
# Runs every check on the unchanged tree for a range of VERIF_SEED values;
# any non-zero exit is a false alarm or a harness error and is printed.
cd "$(dirname "$0")/.."
tier=${3:-quick}
bad=0
for s in $(seq $1 $2); do
  for c in C15 C19 C20; do
    out=$(VERIF_SEED=$s SIM_OUT_DIR=/dev/shm/soak.$$ /venv/bin/python simcheck.py $c --tier $tier 2>&1)
    rc=$?
    echo "seed=$s $c exit=$rc $(echo "$out" | grep -E "^C[0-9]+ $tier" | cut -c1-120)"
    if [ $rc != 0 ]; then bad=1; echo "$out" | grep -E "VIOLATION|HARNESS|^  " | head -8; cp -r /dev/shm/soak.$$/replays /verif/replays-soak-$s-$c 2>/dev/null; fi
  done
done
rm -rf /dev/shm/soak.$$
exit $bad
