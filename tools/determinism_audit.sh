#!/bin/bash
# usage: tools/determinism_audit.sh <check> <runs> [seed...]
# Runs the same batch twice with 16 workers and once with 5 workers (other
# load, other chunking, other worker processes; same hash-seed groups) and
# diffs the per-run (status, outcome digest, event-log digest, signature).
set -u
here=$(cd "$(dirname "$0")/.." && pwd)
check=$1; runs=$2; shift 2
seeds=${*:-0}
d=$(mktemp -d /dev/shm/detaudit.XXXXXX); trap 'rm -rf "$d"' EXIT
rc=0
for s in $seeds; do
  for v in a:16 b:16 c:5; do
    tag=${v%%:*}; w=${v##*:}
    VERIF_SEED=$s SIM_WORKERS=$w SIM_OUT_DIR=$d/out SIM_DUMP_DIGESTS=$d/$s.$tag \
      timeout 3000 /venv/bin/python $here/simcheck.py $check --runs $runs > $d/log.$s.$tag 2>&1
    sort -n -t, -k1.2 $d/$s.$tag > $d/$s.$tag.sorted
  done
  n=$(wc -l < $d/$s.a.sorted)
  if cmp -s $d/$s.a.sorted $d/$s.b.sorted && cmp -s $d/$s.a.sorted $d/$s.c.sorted; then
    echo "seed $s: $n runs identical across 3 executions (16/16/5 workers)"
  else
    echo "seed $s: DIVERGENCE"; diff $d/$s.a.sorted $d/$s.b.sorted | head -5; diff $d/$s.a.sorted $d/$s.c.sorted | head -5; rc=1
  fi
done
exit $rc
