#!/bin/bash
# Every benign (property-preserving) refactoring must pass all three checks.
cd "$(dirname "$0")/.."
rc=0
for p in benign/*.patch; do
  for c in C15 C19 C20; do
    full=$(tools/mutant_run.sh $p $c ${BENIGN_ARGS:---tier quick} 2>&1)
    out=$(echo "$full" | tail -1)
    echo "$out"
    echo "$out" | grep -q "exit=0" || echo "$full" | grep -E "HARNESS|VIOLATION|^  " | head -6
    echo "$out" | grep -q "exit=0" || rc=1
  done
done
exit $rc
