#!/bin/bash
# Every benign (property-preserving) refactoring must pass all three checks.
cd "$(dirname "$0")/.."
rc=0
for p in benign/*.patch; do
  for c in C15 C19 C20; do
    out=$(tools/mutant_run.sh $p $c ${BENIGN_ARGS:---tier quick} 2>&1 | tail -1)
    echo "$out"
    echo "$out" | grep -q "exit=0" || rc=1
  done
done
exit $rc
