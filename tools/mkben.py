#!/venv/bin/python
"""mkben.py <name> <file> <<< JSON [[old,new],...]  -> benign/<name>.patch (appends)"""
import difflib, json, sys
name, rel = sys.argv[1], sys.argv[2]
pairs = json.load(sys.stdin)
src = open('/repo/' + rel).read()
new = src
for old, rep in pairs:
    assert new.count(old) == 1, (name, old, new.count(old))
    new = new.replace(old, rep)
d = difflib.unified_diff(src.splitlines(True), new.splitlines(True), 'a/' + rel, 'b/' + rel)
open('/verif/benign/%s.patch' % name, 'a').write(''.join(d))
print('wrote', name)
