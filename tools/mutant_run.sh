#!/bin/bash
# usage: tools/mutant_run.sh <patch> <check> [simcheck args...]
# Applies <patch> to a scratch copy of /repo under /dev/shm, runs the check
# against the copy (evidence and replays go to the scratch dir too), prints
# the outcome and removes the copy.  Never touches /repo or /verif/evidence.
set -u
here=$(cd "$(dirname "$0")/.." && pwd)   # run the code next to this script (a vp-run snapshot stays self-consistent)
patch=$(realpath "$1"); check=$2; shift 2
d=$(mktemp -d /dev/shm/mut.XXXXXX)
trap 'rm -rf "$d"' EXIT
rsync -a --exclude .git /repo/ "$d/repo/"
( cd "$d/repo" && patch -p1 -s < "$patch" ) || { echo "PATCH-FAILED $patch"; exit 3; }
if [ -n "${MUT_TESTS:-}" ]; then
  ( cd "$d/repo" && timeout 900 /venv/bin/python -m pytest -q -x -p no:cacheprovider tests 2>&1 | tail -1 )
fi
SQLPARSE_VERIF_REPO="$d/repo" SIM_OUT_DIR="$d/out" timeout 3000 /venv/bin/python "$here/simcheck.py" "$check" "$@" > "$d/log" 2>&1
rc=$?
mkdir -p /dev/shm/mutlogs; cp "$d/log" "/dev/shm/mutlogs/$(basename $patch .patch)-$check.log" 2>/dev/null
grep -E "VIOLATION|HARNESS|KNOWN|runs \(" "$d/log" | sed "s#$d#<scratch>#g" | head -8
grep -B4 -m1 VIOLATION "$d/log" | head -6 | cut -c1-300
echo "mutant=$(basename $patch) check=$check exit=$rc"
