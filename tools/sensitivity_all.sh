#!/bin/bash
# Runs every seeded change and hand mutant against the quick tier of the check
# of the property it breaks (scratch copies only) and prints one line each.
# usage: tools/sensitivity_all.sh [out.json]
cd "$(dirname "$0")/.."
out=${1:-sensitivity_results.json}
tmp=$(mktemp /dev/shm/sens.XXXXXX)
echo "{" > $tmp
first=1
run() { # id patch check
  local id=$1 patch=$2 check=$3
  local t0=$(date +%s)
  local log=$(tools/mutant_run.sh "$patch" "$check" --tier quick 2>&1)
  local rc=$(echo "$log" | grep -o "exit=[0-9]*" | tail -1 | cut -d= -f2)
  local viol=$(echo "$log" | grep -m1 -o "^  [a-z:A-Za-z_-]*: " | head -1 | tr -d ' ')
  local t1=$(date +%s)
  echo "$id $check exit=$rc ${viol} $((t1-t0))s"
  [ $first = 1 ] || echo "," >> $tmp
  first=0
  printf ' "%s": {"check": "%s", "exit": %s, "first_violation_class": "%s", "seconds": %d}' "$id" "$check" "${rc:-null}" "$viol" $((t1-t0)) >> $tmp
}
for d in seeded/*/; do
  id=$(basename $d)
  check=$(python3 -c "import json;print(json.load(open('$d/meta.json'))['property'])")
  run "seeded/$id" "$d/patch.diff" "$check"
done
for p in mutants/*.patch; do
  id=$(basename $p .patch)
  case $id in
    c15_*) run "mutants/$id" $p C15;;
    c19_*) run "mutants/$id" $p C19;;
    c20_*) run "mutants/$id" $p C20;;
    d1_*) run "mutants/$id/C15" $p C15; run "mutants/$id/C20" $p C20;;
  esac
done
echo "}" >> $tmp
mv $tmp $out
