#!/venv/bin/python
"""Entry point: simcheck.py <C15|C19|C20> --tier quick|thorough
                 simcheck.py <ID> --replay <file>
Exit 0 = property held on everything explored; 1 = VIOLATION line printed;
2 = harness error (never reported as a violation)."""
import argparse
import os
import sys

HERE = os.path.dirname(os.path.abspath(__file__))
sys.path.insert(0, HERE)
sys.dont_write_bytecode = True


def main():
    ap = argparse.ArgumentParser()
    ap.add_argument('check', choices=['C15', 'C19', 'C20'])
    ap.add_argument('--tier', default=os.environ.get('VERIF_TIER') or 'quick',
                    choices=['quick', 'thorough'])
    ap.add_argument('--replay')
    ap.add_argument('--runs', type=int)
    a = ap.parse_args()
    from sim import orch
    try:
        if a.replay:
            return orch.replay(a.check, a.replay)
        seed = os.environ.get('VERIF_SEED', '0')
        try:
            seed = int(seed)
        except ValueError:
            seed = 0
        return orch.main(a.check, a.tier, seed, a.runs)
    except orch.Harness as e:
        print('HARNESS-ERROR %s' % e)
        return 2


if __name__ == '__main__':
    sys.exit(main())
