"""Workload material: SQL texts, option sets, nesting constructs, a small
seeded SQL grammar.  Pure data and pure functions of a PRNG; nothing here
imports or calls sqlparse."""
import os

from sim.boot import REPO

# ---------------------------------------------------------------------------
# short texts (thread runs: only a few dozen characters, the scheduler's cost
# is per executed line and the lexer loop is per character)
SHORT = [
    "select 1",
    "select a from b",
    "select * from t where x = 1",
    "SELECT a, b FROM t1 JOIN t2 ON t1.id = t2.id",
    "insert into t (a, b) values (1, 'x')",
    "update t set a = a + 1 where b is null",
    "select 1; select 2;",
    "select case when a then 1 else 2 end from t",
    "select f(x, y) from t -- c\n",
    "select /* c */ a as b from t;",
    "create table t (a int, b varchar(10))",
    "select a from t order by a desc limit 5",
    "delete from t where id in (1, 2, 3)",
    "select \"a\".\"b\" from [dbo].[t]",
    "select x::int, y->>'k' from t",
    "select count(*) over (partition by a) from t",
    "with c as (select 1) select * from c",
    "select 'é', N'x', 1.5e3, 0xFF, $1, :n, ?",
    "begin; commit;",
    "select a from t where b between 1 and 2 and c like 'x%'",
    "select 1 union select 2",
    "SELECT DATE '2020-01-01', INTERVAL '1 day'",
    "drop table if exists t cascade",
    "GRANT SELECT ON t TO u",
    "select a.*, b.c d from a, b",
]

TINY = ["select 1", "a;b;", "select a from b", "x = 1", "(1)", "select 'x'",
        "f(a, b)", "a -- c\n", "select *", "1; 2", "case a end", "[x].y",
        "a as b", "in (1)", "x::int", "go", "order by a", "/*c*/ 1"]

# short texts that drive the stateful layout filters through their nested
# blocks (sub-selects in parentheses, GROUP/ORDER BY lists, CASE, functions,
# comments): what two threads must both be doing for leaked filter state to
# show
RICH = [
    "select a, b from (select c from d) e order by a, b",
    "select a from t where b in (select c from d where e = 1)",
    "select case when a then 1 else 2 end, b from t group by a, b",
    "select f(a, b), g(c) from t join u on t.x = u.x where y = 1 and z = 2",
    "select a, -- c\n b from t; select 2 from (select 3) x",
    "insert into t (a, b) values (1, 2), (3, 4); select 1",
    "select k, v from kv where k = 1 and v = 2",
    "select a from (select b from (select c from d)) order by a desc, b",
    "update t set a = 1, b = 2 where c in (1, 2, 3); select 'x';",
    "select a + b * c, 'it''s' from t where x between 1 and 2 or y > 3",
]

# one word unique to each of the nine keyword dictionaries, in the order the
# dictionaries are added, plus a literal, a number and a dotted name
PROBE_I = "or dba row box cmp distinctrow issue enum no 'x' 1 a.b"

# the probe text exercises every rule class and keyword dictionary
PROBE = ("select /*+ h */ --+ x\n a::int, 'q', \"i\", `b`, $$d$$ x, 1.5, 0x1F, "
         "1e3, :p, ?1, %s, @v, #t, x.* from t1 left outer join t2 on a <= b "
         "where c not null and d := 1 at time zone 'u' group by e "
         "order by f desc nulls first; go\n"
         "create or replace table if not exists x (y double precision); "
         "minus connect nocycle engine tblproperties ilike qualify "
         "handler foreach pivot")

# medium texts (histories, steady-state thread runs, C19)
MEDIUM = [
    "select a, b, c from t1 join t2 on t1.id = t2.id where x = 1 and y = 2 "
    "group by a having count(*) > 1 order by b;",
    "select * from (select a, (select max(x) from u) m from t) s where "
    "s.m > 3;\nselect 2;",
    "insert into t (a, b, c) values (1, 'x', null), (2, 'y', 3.5);\n"
    "update t set a = 1, b = 2 where c = 3;",
    "create table foo (\n  id integer primary key, -- the id\n  name "
    "varchar(255) not null default 'x',\n  created timestamp\n);",
    "select case when a = 1 then 'one' when a = 2 then 'two' else 'many' "
    "end as label, b from t where c in (select d from e);",
    "/* header */\nselect a, -- first\n       b -- second\nfrom t;\n\n"
    "-- trailing\nselect 3;",
    "CREATE OR REPLACE FUNCTION f(a int) RETURNS int AS $$\nBEGIN\n  IF a > "
    "0 THEN\n    RETURN 1;\n  END IF;\n  RETURN 0;\nEND;\n$$ LANGUAGE "
    "plpgsql;\nselect f(1);",
    "create procedure p()\nbegin\n  declare x int;\n  select 1 into x;\n  "
    "if x = 1 then\n    select 2;\n  end if;\nend;\nselect 9;",
    "select a+b*c, d-e/f, g||h, -i from t where j<>k and l>=m or not n",
    "select t.a as x, u.b y, count(distinct v.c) from t, u, v where t.id = "
    "u.id and u.id = v.id",
    "with recursive c(n) as (select 1 union all select n + 1 from c where "
    "n < 5) select n from c;",
    "select 'it''s', \"we\"\"ird\", `tick`, [brack et], 'multi\nline' from t;",
    "select überspalte, 'ключ', \"列\", x from tabelle where name = 'José' "
    "-- café\n;",
    "select a from t1 left join t2 on t1.a = t2.a inner join t3 using (a) "
    "cross join t4 natural join t5",
    "select sum(a) over (partition by b order by c rows between unbounded "
    "preceding and current row) from t",
    "merge into t using s on t.id = s.id when matched then update set a = "
    "s.a when not matched then insert (id, a) values (s.id, s.a);",
    "select 1;\n\n\nselect 2;   select 3\n;select 4",
    "alter table t add column c int; create index i on t (c); drop index i;",
    "select x from t where a = 'C:\\temp\\new' and b like '100\\%' escape "
    "'\\';",
    "select a, b from t where a between 1 and 10 and b = 2 limit 10 "
    "offset 5; go\nselect 5",
    "SELECT foo FROM bar WHERE baz IN (1,2,3) AND qux = ANY(ARRAY[1,2]) "
    "AND z[1] = 2",
    "select (a + (b * (c - (d / (e))))) from ((t))",
    "set @x := 1; select @x := @x + 1 from t;",
    "values (1, 2), (3, 4); select * from t for update;",
    "declare @v int\nset @v = 3\nif @v > 1 select 1 else select 2",
    "EXPLAIN ANALYZE SELECT * FROM t WHERE a IS NOT NULL AND b ILIKE '%x%'",
    "select a as \"select\", b as `from` from t as \"where\"",
    "comment on table t is 'x'; truncate t; vacuum;",
    "select extract(year from d), cast(a as decimal(10,2)), "
    "coalesce(b, 0) from t",
    "CREATE VIEW v AS SELECT a, b FROM t WHERE c > 0 WITH CHECK OPTION;",
]

_FILES = None


def test_files():
    """Contents of /repo/tests/files/*.sql that are valid UTF-8 and small."""
    global _FILES
    if _FILES is None:
        out = []
        d = os.path.join(REPO, 'tests', 'files')
        try:
            names = sorted(os.listdir(d))
        except OSError:
            names = []
        for n in names:
            if not n.endswith('.sql'):
                continue
            try:
                with open(os.path.join(d, n), 'rb') as f:
                    b = f.read()
                t = b.decode('utf-8')
            except (OSError, UnicodeDecodeError):
                continue
            t = t.replace('\r\n', '\n').replace('\r', '\n')
            if 0 < len(t) <= 2500:
                out.append(t)
        _FILES = out
    return _FILES


# ---------------------------------------------------------------------------
# option sets for format()

LAYOUT_OPTS = [
    {},
    {"reindent": True},
    {"reindent": True, "indent_width": 4},
    {"reindent": True, "indent_tabs": True},
    {"reindent": True, "wrap_after": 20},
    {"reindent": True, "comma_first": True},
    {"reindent": True, "indent_after_first": True},
    {"reindent": True, "indent_columns": True},
    {"reindent": True, "compact": True},
    {"reindent_aligned": True},
    {"strip_whitespace": True},
    {"use_space_around_operators": True},
    {"reindent": True, "use_space_around_operators": True,
     "comma_first": True, "wrap_after": 30},
]

TARGETED_OPTS = [
    {"keyword_case": "upper"},
    {"keyword_case": "lower", "identifier_case": "upper"},
    {"identifier_case": "capitalize"},
    {"strip_comments": True},
    {"truncate_strings": 5},
    {"truncate_strings": 3, "truncate_char": "~"},
    {"output_format": "python"},
    {"output_format": "php"},
    {"output_format": "python", "reindent": True},
    {"output_format": "php", "reindent": True, "keyword_case": "upper"},
    {"strip_comments": True, "reindent": True, "keyword_case": "upper"},
    {"output_format": "sql"},
    {"reindent_aligned": True, "keyword_case": "upper",
     "strip_comments": True},
]

ALL_OPTS = LAYOUT_OPTS + TARGETED_OPTS

INVALID_OPTS = [
    {"keyword_case": "camel"},
    {"identifier_case": "x"},
    {"output_format": "java"},
    {"strip_comments": None},
    {"indent_width": 0},
    {"indent_width": "x"},
    {"wrap_after": -1},
    {"truncate_strings": 1},
    {"truncate_strings": "bar"},
    {"right_margin": 2},
    {"comma_first": "yes"},
    {"reindent": 2},
    {"indent_tabs": 2},
    {"compact": "x"},
]


def draw_opts(rng):
    """A format() option dict: a corpus member or a swarm combination."""
    r = rng.random()
    if r < 0.6:
        return dict(ALL_OPTS[rng.randrange(len(ALL_OPTS))])
    o = {}
    if rng.random() < 0.5:
        o["reindent"] = True
        if rng.random() < 0.3:
            o["indent_width"] = rng.choice([1, 3, 4, 8])
        if rng.random() < 0.3:
            o["wrap_after"] = rng.choice([1, 10, 25, 60])
        if rng.random() < 0.3:
            o["comma_first"] = True
        if rng.random() < 0.2:
            o["indent_after_first"] = True
        if rng.random() < 0.2:
            o["indent_columns"] = True
        if rng.random() < 0.2:
            o["compact"] = True
        if rng.random() < 0.15:
            o["indent_tabs"] = True
    elif rng.random() < 0.4:
        o["reindent_aligned"] = True
    if rng.random() < 0.3:
        o["keyword_case"] = rng.choice(["upper", "lower", "capitalize"])
    if rng.random() < 0.2:
        o["identifier_case"] = rng.choice(["upper", "lower", "capitalize"])
    if rng.random() < 0.2:
        o["strip_comments"] = True
    if rng.random() < 0.15:
        o["use_space_around_operators"] = True
    if rng.random() < 0.1:
        o["strip_whitespace"] = True
    if rng.random() < 0.1:
        o["truncate_strings"] = rng.choice([2, 4, 10])
    if rng.random() < 0.1:
        o["output_format"] = rng.choice(["python", "php", "sql"])
    return o


# ---------------------------------------------------------------------------
# spacing variants and related option sets (C20 variant histories)
#
# One statement, written with every kind of gap between its pieces (glued,
# one blank, several, line break, tab) and with comments in every position,
# formatted under option sets that share one filter and differ in the filters
# around it.  A filter that keeps an object across calls (a token built once
# at module level, a cached helper) and another filter that changes objects
# in place only interfere for particular neighbourhoods: the call that damages
# the shared object and the call that shows the damage need *different*
# spacing around the same construct.

DENSE_TEMPLATES = [
    ['select', 'a', '/* c */', 'from', 'b'],
    ['select', 'a', ',', 'b', '--c\n', 'from', 't', 'where', 'x', '=', '1'],
    ['select', 'a', '+', 'b', '*', '2', ',', "'a long string literal'",
     'from', 't', 'where', 'n', '>=', '10', 'or', 'm', '<>', "'another long one'"],
    ['/* h */', 'select', '1', ';', '/* t */', 'select', '2', '-- e\n'],
    ['select', 'f', '(', 'a', ',', '/* c */', 'b', ')', 'from', '(',
     'select', '1', ')', 'x'],
    ['select', 'case', 'when', 'a', '>', '1', 'then', '/*c*/', "'x'", 'else',
     'b', 'end', 'from', 't'],
    ['insert', 'into', 't', '(', 'a', ',', 'b', ')', 'values', '(', '1', ',',
     '2', ')', '/* c */', ',', '(', '3', ',', '4', ')'],
    ['select', 'a', 'from', 't', 'where', 'b', '=', '1', '/* c */', 'and',
     'c', '<>', '2', 'order', 'by', 'a', ',', 'b', 'desc'],
    ['create', 'table', 't', '(', 'a', 'int', ',', '-- k\n', 'b', 'varchar',
     '(', '10', ')', ')'],
    ['select', 'a', '/* one */', '/* two */', ',', 'b', 'as', 'c', 'from',
     't', 'join', 'u', 'on', 't', '.', 'x', '=', 'u', '.', 'x', '--+ hint\n',
     'group', 'by', 'a', ',', 'b'],
    ['select', '*', 'from', 't', '/* c */', ';', 'select', '/* d */', '2',
     ';'],
]

_GAPS = ['', '', '', ' ', ' ', '  ', '\n', ' \n ', '\t', '\n\n']


def gen_dense(rng, template=None):
    """A spacing variant of one of DENSE_TEMPLATES (two words are never glued
    together; everything else may be)."""
    tpl = template or DENSE_TEMPLATES[rng.randrange(len(DENSE_TEMPLATES))]
    out = [tpl[0]]
    for prev, cur in zip(tpl, tpl[1:]):
        gap = _GAPS[rng.randrange(len(_GAPS))]
        if not gap and prev[-1].isalnum() and cur[0].isalnum():
            gap = ' '
        out.append(gap)
        out.append(cur)
    if rng.random() < 0.3:
        out.append(rng.choice([' ', '\n', ';', ' ;\n']))
    return ''.join(out)


_FAMILY_BASE = [
    {'strip_comments': True}, {'strip_comments': True},
    {'use_space_around_operators': True}, {'strip_whitespace': True},
    {'truncate_strings': 4}, {'keyword_case': 'upper'},
    {'identifier_case': 'upper'}, {'reindent': True},
    {'reindent_aligned': True}, {'output_format': 'python'},
    {'output_format': 'php'}, {},
]
_FAMILY_EXTRA = [
    {'strip_whitespace': True}, {'reindent': True},
    {'reindent_aligned': True}, {'strip_comments': True},
    {'use_space_around_operators': True}, {'keyword_case': 'upper'},
    {'identifier_case': 'lower'}, {'reindent': True, 'compact': True},
    {'reindent': True, 'comma_first': True},
    {'reindent': True, 'indent_columns': True},
    {'reindent': True, 'wrap_after': 10}, {'truncate_strings': 6},
    {'output_format': 'python'},
]


def draw_opts_family(rng, k=3):
    """Option sets that share one base filter and differ in the others."""
    base = _FAMILY_BASE[rng.randrange(len(_FAMILY_BASE))]
    fam = [dict(base)]
    for extra in rng.sample(_FAMILY_EXTRA, k - 1):
        o = dict(base)
        o.update(extra)
        fam.append(o)
    return fam


# ---------------------------------------------------------------------------
# nesting constructs (C15): pure functions (construct, depth) -> text

CONSTRUCTS = ['paren', 'bracket', 'func', 'case', 'subquery', 'arith',
              'unclosed_paren', 'unclosed_bracket', 'unclosed_case',
              'comment_list', 'begin', 'ifblock', 'forloop', 'mixed',
              'paren_in_where', 'in_list', 'cte', 'paren_func', 'case_func',
              'values_func', 'func_alias', 'where_func', 'over_nest',
              'opchain', 'sumchain', 'cmpchain', 'castchain', 'arrchain',
              'dotchain', 'andchain']


def nest(construct, d):
    if construct == 'paren':
        return 'select ' + '(' * d + '1' + ')' * d
    if construct == 'bracket':
        return 'select x' + '[' * d + '1' + ']' * d
    if construct == 'func':
        return 'select ' + 'f(' * d + 'a' + ')' * d + ' from t'
    if construct == 'case':
        return ('select ' + 'case when a then ' * d + '1'
                + ' else 0 end' * d + ' from t')
    if construct == 'subquery':
        return ('select * from ' + '(select * from ' * d + 't'
                + ') s' * d + ' where a = 1')
    if construct == 'arith':
        return 'select ' + '(1 + ' * d + 'x' + ')' * d + ' from t'
    if construct == 'unclosed_paren':
        return 'select ' + '(' * d + '1'
    if construct == 'unclosed_bracket':
        return 'select x' + '[' * d
    if construct == 'unclosed_case':
        return 'select ' + 'case when a then ' * d + '1'
    if construct == 'comment_list':
        return ('select ' + '(a, /* c */ b, ' * d + 'z' + ')' * d
                + ' -- end\n')
    if construct == 'begin':
        return ('create procedure p() ' + 'begin ' * d + 'select 1; '
                + 'end; ' * d)
    if construct == 'ifblock':
        return ('if a then ' * d + 'select 1; ' + 'end if; ' * d)
    if construct == 'forloop':
        return ('for i in 1..2 loop ' * d + 'select 1; ' + 'end loop; ' * d)
    if construct == 'mixed':
        unit_o = ['(', 'f(', 'case when a then ', '[', '(select ']
        unit_c = [')', ')', ' end', ']', ')']
        o = ''.join(unit_o[i % 5] for i in range(d))
        c = ''.join(unit_c[i % 5] for i in reversed(range(d)))
        return 'select ' + o + '1' + c + ' from t'
    if construct == 'paren_in_where':
        return ('select a from t where ' + '(a = 1 and ' * d + 'b = 2'
                + ')' * d + ' order by a')
    if construct == 'in_list':
        return ('select a from t where a in ' + '(select a from t where a in '
                * d + '(1, 2)' + ')' * d)
    if construct == 'cte':
        return ('with c as ' + '(with c as ' * d + '(select 1)'
                + ' select * from c)' * d + ' select * from c')
    # compound constructs: a deep chain wrapped by a *different* group at the
    # outermost level, so that the passes which overflow first are not the
    # ones working at statement level
    if construct == 'paren_func':
        return 'select (' + 'f(' * d + '1' + ')' * d + ') from t'
    if construct == 'case_func':
        return ('select case when ' + 'f(' * d + 'a' + ')' * d
                + ' then 1 else 2 end from t')
    if construct == 'values_func':
        return ('insert into t values (' + 'f(' * d + '1' + ')' * d
                + ', 2)')
    if construct == 'func_alias':
        return ('select ' + 'f(' * d + 'a' + ')' * d + ' as x, b y from t u')
    if construct == 'where_func':
        return ('select a from t where b = ' + 'g(' * d + 'c' + ')' * d
                + ' and d > 1')
    if construct == 'over_nest':
        return ('select sum(' + '(a + ' * d + '1' + ')' * d
                + ') over (partition by b) from t')
    # flat chains: no brackets in the text, but the grouping engine nests
    # the joined operands one level per link, so the TREE is d levels deep
    if construct == 'opchain':
        return 'select a' + ' || a' * d + ' from t'
    if construct == 'sumchain':
        return 'select 1' + '+1' * d + ' from t'
    if construct == 'cmpchain':
        return 'select a from t where a' + ' = a' * d
    if construct == 'castchain':
        return 'select a' + '::int' * d + ' from t'
    if construct == 'arrchain':
        return 'select a' + '[1]' * d + ' from t'
    if construct == 'dotchain':
        return 'select a' + '.a' * d + ' from t'
    if construct == 'andchain':
        return 'select a from t where a = 1' + ' and a = 1' * d
    raise ValueError(construct)


# ---------------------------------------------------------------------------
# small seeded SQL grammar (C19 texts with non-ASCII content)

_ID_LATIN = ['naïve', 'über', 'café', 'señor', 'Ærø', 'ĉapelo']
_ID_CYR = ['таблица', 'ключ', 'имя', 'Значение']
_ID_CJK = ['表', '列名', '数据', 'ユーザー', '値']
_ID_ASCII = ['a', 'b', 'col1', 't', 'users', 'order_id', 'x_y', 'T2']
# incl. names whose Latin-1 bytes contain well-formed UTF-8 sequences
# (an upper-case accented letter followed by a character from U+0080-U+00BF)
_ID_L1 = ['naïve', 'über', 'café', 'señor', 'Ærø', 'ñu', 'façade', 'Â°C',
          'É»x', 'Ã©tÃ©']
_KW = ['select', 'SELECT', 'Select']


def _ident(rng, script):
    pool = {'ascii': _ID_ASCII, 'latin': _ID_LATIN, 'l1': _ID_L1,
            'cyr': _ID_CYR, 'cjk': _ID_CJK}[script]
    s = pool[rng.randrange(len(pool))]
    r = rng.random()
    if r < 0.15:
        return '"%s"' % s
    if r < 0.22:
        return '`%s`' % s
    if r < 0.27:
        return '[%s]' % s
    return s


def _literal(rng, script, backslash):
    r = rng.random()
    if r < 0.3:
        return str(rng.randrange(1000))
    if r < 0.4:
        return '%d.%d' % (rng.randrange(100), rng.randrange(100))
    pool = {'ascii': ['x', 'abc'], 'latin': ['café', 'Zoë'],
            'l1': ['café', 'Zoë', '½ £', 'Â°C Ã©', '«¿QUÉ» Ñ¿', 'Ð½ Ã¤'],
            'cyr': ['строка', 'Ёж'], 'cjk': ['文字列', 'テスト']}[script]
    body = pool[rng.randrange(len(pool))]
    if backslash and rng.random() < 0.6:
        esc = rng.choice(['\\n', '\\t', '\\\\', '\\x41', '\\u00e9', '\\101',
                          'C:\\tmp', '\\N{DASH}', '\\', '\\q'])
        body = body + esc if rng.random() < 0.5 else esc + body
        if body.endswith('\\') and not body.endswith('\\\\'):
            body += ' '
    if rng.random() < 0.15:
        body += "''s"
    return "'%s'" % body


_MULTILINE = [
    "/* first;\nsecond */ ", "/*\n * boxed; comment\n */\n",
]


def _multiline_piece(rng, script):
    """A token that spans a line break (and contains a semicolon): anything
    that cuts its input at line or block boundaries splits it."""
    r = rng.random()
    word = {'ascii': 'x', 'latin': 'é', 'l1': 'ñ', 'cyr': 'ж',
            'cjk': '値'}[script]
    if r < 0.3:
        return "'%s one;\n two %s'" % (word, word)
    if r < 0.5:
        return '"%s\n%s"' % (word, word)
    if r < 0.75:
        return "$$ begin;\n %s;\nend $$" % word
    return "$tag$ %s;\n\n %s $tag$" % (word, word)


def gen_sql(rng, script='ascii', backslash=False, nstmts=None,
            multiline=0.2):
    """A small multi-statement script; *script* selects the alphabet of
    identifiers/literals/comments."""
    n = nstmts or rng.choice([1, 1, 2, 3])
    out = []
    for _ in range(n):
        kind = rng.random()
        mix = (lambda: script if rng.random() < 0.7 else 'ascii')
        if kind < 0.55:
            cols = ', '.join(
                _ident(rng, mix()) if rng.random() < 0.7
                else _literal(rng, mix(), backslash)
                for _ in range(rng.choice([1, 2, 3, 5])))
            s = '%s %s from %s' % (rng.choice(_KW), cols, _ident(rng, mix()))
            if rng.random() < 0.6:
                s += ' where %s = %s' % (_ident(rng, mix()),
                                         _literal(rng, mix(), backslash))
                if rng.random() < 0.4:
                    s += ' and %s in (%s, %s)' % (
                        _ident(rng, mix()), _literal(rng, mix(), backslash),
                        _literal(rng, mix(), backslash))
            if rng.random() < 0.3:
                s += ' order by %s desc' % _ident(rng, mix())
        elif kind < 0.7:
            s = 'insert into %s (%s, %s) values (%s, %s)' % (
                _ident(rng, mix()), _ident(rng, mix()), _ident(rng, mix()),
                _literal(rng, mix(), backslash),
                _literal(rng, mix(), backslash))
        elif kind < 0.8:
            s = 'update %s set %s = %s where %s > %s' % (
                _ident(rng, mix()), _ident(rng, mix()),
                _literal(rng, mix(), backslash), _ident(rng, mix()),
                _literal(rng, mix(), backslash))
        elif kind < 0.9:
            s = 'create table %s (%s int, %s varchar(10))' % (
                _ident(rng, mix()), _ident(rng, mix()), _ident(rng, mix()))
        else:
            s = 'select case when %s = %s then %s else %s end from %s' % (
                _ident(rng, mix()), _literal(rng, mix(), backslash),
                _literal(rng, mix(), backslash),
                _literal(rng, mix(), backslash), _ident(rng, mix()))
        if rng.random() < multiline:
            k = rng.random()
            if k < 0.35:
                s = rng.choice(_MULTILINE) + s
            elif k < 0.7 and s.lower().startswith('select '):
                s = s[:7] + _multiline_piece(rng, script) + ', ' + s[7:]
            elif ' order by ' in s:
                s = s.replace(' order by ', ' order\nby ')
            elif ' from ' in s:
                s = s.replace(' from ', '\nfrom\n', 1)
            else:
                s = s + ' ' + rng.choice(_MULTILINE).rstrip()
        if rng.random() < 0.3:
            cm = {'ascii': 'note', 'latin': 'remarque éà', 'l1': 'año ½',
                  'cyr': 'заметка', 'cjk': '注釈'}[script]
            if backslash and rng.random() < 0.5:
                cm += ' \\' + rng.choice(['n', 'x', 'u12', ''])
            if rng.random() < 0.5:
                s += ' -- %s\n' % cm
            else:
                s = '/* %s */ ' % cm + s
        out.append(s)
    sep = rng.choice([';\n', '; ', ';\n\n'])
    text = sep.join(out)
    if rng.random() < 0.6:
        text += ';'
    if rng.random() < 0.5:
        text += '\n'
    return text


ENCODINGS_BY_SCRIPT = {
    'ascii': ['utf-8', 'latin-1', 'cp1252', 'cp1251', 'koi8-r', 'gbk',
              'shift_jis', 'utf-16', 'utf-32', 'utf-8-sig', 'ascii'],
    'latin': ['utf-8', 'utf-16', 'utf-32', 'utf-8-sig'],
    'l1': ['utf-8', 'latin-1', 'cp1252', 'utf-16', 'utf-32',
           'iso8859-15'],
    'cyr': ['utf-8', 'cp1251', 'koi8-r', 'utf-16', 'utf-32'],
    'cjk': ['utf-8', 'gbk', 'shift_jis', 'utf-16', 'utf-32', 'euc_kr',
            'big5'],
}
