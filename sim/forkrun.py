"""Run a function in a forked child with a real-time watchdog."""
import json
import os
import select
import signal
import sys
import time
import traceback


def fork_eval(fn, timeout):
    """Run fn() in a forked child; returns (status, json-result).
    status: ok | exc | timeout | signal:<n> | exit:<n> | garbled"""
    r, w = os.pipe()
    sys.stderr.flush()
    pid = os.fork()
    if pid == 0:
        code = 0
        try:
            os.close(r)
            try:
                res = fn()
                payload = json.dumps({'ok': res})
            except BaseException:                # noqa
                payload = json.dumps({'exc': traceback.format_exc()[-4000:]})
            data = payload.encode('utf-8')
            off = 0
            while off < len(data):
                off += os.write(w, data[off:off + 65536])
        except BaseException:                    # noqa
            code = 3
        finally:
            os._exit(code)
    os.close(w)
    chunks = []
    deadline = time.monotonic() + timeout
    status = None
    while True:
        left = deadline - time.monotonic()
        if left <= 0:
            status = 'timeout'
            break
        rl, _, _ = select.select([r], [], [], min(left, 5.0))
        if rl:
            b = os.read(r, 1 << 20)
            if not b:
                break
            chunks.append(b)
    os.close(r)
    if status == 'timeout':
        try:
            os.kill(pid, signal.SIGKILL)
        except OSError:
            pass
        os.waitpid(pid, 0)
        return 'timeout', None
    _, wst = os.waitpid(pid, 0)
    if os.WIFSIGNALED(wst):
        return 'signal:%d' % os.WTERMSIG(wst), None
    ec = os.WEXITSTATUS(wst)
    if ec != 0:
        return 'exit:%d' % ec, None
    try:
        obj = json.loads(b''.join(chunks).decode('utf-8'))
    except ValueError:
        return 'garbled', None
    if 'exc' in obj:
        return 'exc', obj['exc']
    return 'ok', obj['ok']
