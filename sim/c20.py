"""C20 — results depend only on input and options: no call history, no
thread effects.  Three populations of simulated runs (DESIGN §6):

  H  sequential / cooperative call histories with injected faults
  I  the first-call initialisation race (threads, fresh lexer)
  S  steady-state concurrent use (threads, warm lexer)
"""
import copy
import random
import sys

from sim import canon, corpus, ops
from sim.boot import PKG, pkg_files
from sim.sched import Sched, SimInterrupt

CHECK = 'C20'
API_W = ['parse', 'parse', 'split', 'format', 'format', 'format',
         'parsestream', 'tokenize']


def population(idx):
    r = idx % 4
    return 'I' if r == 0 else 'S' if r == 1 else 'H'


# ---------------------------------------------------------------------------
# helpers run in pristine forks (measurements)

def measure_window(arg):
    """Length (in scheduler points) of thread 0's path from the start of its
    first op to the return of Lexer.get_default_instance(), fresh lexer."""
    import sqlparse  # noqa
    from sqlparse.lexer import Lexer
    out = {}
    for kind in ('getinst', 'parse'):
        for instr in (False, True):
            # each measurement needs a fresh lexer: fork again
            from sim.forkrun import fork_eval
            st, res = fork_eval(
                lambda: _measure_one(kind, instr), 60.0)
            if st != 'ok':
                raise RuntimeError('window measure failed: %s %r' % (st, res))
            out['%s/%d' % (kind, int(instr))] = res
    return out


def measure_cold(arg):
    """Source locations (file id, line) that thread 0's op executes on its
    FIRST execution in a process but not on a second one: the code of every
    lazy initialisation on its path (lexer creation, and whatever else the
    tree under test creates on first use).  arg = [op, warm]."""
    import sqlparse
    op, warm = arg
    sys.setrecursionlimit(ops.AMPLE)
    file_ids = {f: i + 1 for i, f in enumerate(pkg_files())}
    if warm == 'lexer':
        list(sqlparse.lexer.tokenize('select 1'))

    def once():
        seen = []
        seen_set = set()

        def local(frame, event, a):
            if event == 'line':
                k = (file_ids.get(frame.f_code.co_filename, 0),
                     frame.f_lineno)
                if k not in seen_set:
                    seen_set.add(k)
                    seen.append(k)
            return local

        def glob(frame, event, a):
            if frame.f_code.co_filename.startswith(PKG) and \
                    frame.f_code.co_name != '<module>':
                return local
            return None
        s = Sched(1, {'kind': 'seq'}, random.Random(0), PKG, file_ids,
                  10 ** 9)
        s.tracers[0] = glob
        s.run([lambda tid: _exec_thread_op(s, tid, op, [])])
        return seen, seen_set
    first, _ = once()
    _, second = once()
    return {'cold': [list(k) for k in first if k not in second],
            'all': [list(k) for k in first]}


def _measure_one(kind, instr):
    from sqlparse.lexer import Lexer
    file_ids = {f: i + 1 for i, f in enumerate(pkg_files())}
    s = Sched(1, {'kind': 'seq'}, random.Random(0), PKG, file_ids,
              10 ** 9, instr=instr)
    mark = []
    code = Lexer.get_default_instance.__func__.__code__
    orig = s.tracers[0]

    def glob(frame, event, arg):
        loc = orig(frame, event, arg)
        if loc is None:
            return None
        if frame.f_code is code:
            def wrapped(fr, ev, a):
                if ev == 'return' and not mark:
                    mark.append(s.lstep[0])
                return loc(fr, ev, a) and wrapped
            return wrapped
        return loc
    s.tracers[0] = glob
    op = _thread_op(kind)
    s.run([lambda tid: _exec_thread_op(s, tid, op, [])])
    return {'window': mark[0] if mark else 0, 'total': s.lstep[0]}


def _thread_op(kind):
    if kind == 'getinst':
        return {'k': 'getinst'}
    return {'k': 'call', 'api': 'parse',
            'inp': {'t': 'str', 'v': 'select 1'}, 'opts': None}


# ---------------------------------------------------------------------------
# generation

def gen(seed, idx, tier, ctx):
    rng = random.Random('%s/%s/%d' % (seed, CHECK, idx))
    pop = population(idx)
    if pop == 'H':
        spec = gen_history(rng, ctx)
    else:
        spec = gen_threads(rng, ctx, pop, idx)
    spec.update(check=CHECK, pop=pop, seed=seed, idx=idx)
    return spec


def _short(rng):
    return corpus.SHORT[rng.randrange(len(corpus.SHORT))]


def _tiny(rng):
    return corpus.TINY[rng.randrange(len(corpus.TINY))]


def _medium(rng):
    r = rng.random()
    if r < 0.35:
        return _short(rng)
    if r < 0.9:
        return corpus.MEDIUM[rng.randrange(len(corpus.MEDIUM))]
    files = corpus.test_files()
    if files:
        return files[rng.randrange(len(files))]
    return corpus.MEDIUM[0]


def _checked_call(rng, text_fn):
    api = API_W[rng.randrange(len(API_W))]
    text = text_fn(rng)
    opts = None
    if api == 'format':
        opts = corpus.draw_opts(rng)
    elif api == 'split' and rng.random() < 0.25:
        opts = {'strip_semicolon': True}
    form = rng.random()
    inp = {'t': 'str', 'v': text}
    enc = None
    if form < 0.08:
        inp = {'t': 'sio', 'v': text}
    elif form < 0.16:
        inp = {'t': 'bytes', 'v': text, 'enc': 'utf-8'}
    return {'op': 'call', 'api': api, 'inp': inp, 'opts': opts, 'enc': enc}


def _raising_call(rng):
    r = rng.random()
    text = _medium(rng)
    if r < 0.35:
        return {'op': 'call', 'api': 'format',
                'inp': {'t': 'str', 'v': text},
                'opts': dict(rng.choice(corpus.INVALID_OPTS)), 'enc': None}
    if r < 0.55:
        return {'op': 'call', 'api': rng.choice(['parse', 'split', 'format']),
                'inp': {'t': 'badtype'}, 'opts': None, 'enc': None}
    if r < 0.8:
        return {'op': 'call', 'api': rng.choice(['parse', 'split', 'format']),
                'inp': {'t': 'bytes', 'v': 'select \'é\', ключ from 表',
                        'enc': 'utf-16'},
                'opts': None, 'enc': 'ascii'}
    return {'op': 'call', 'api': rng.choice(['parse', 'split', 'format']),
            'inp': {'t': 'failstream', 'v': text}, 'opts': None, 'enc': None}


class _Palette:
    """A history draws its texts and option sets from a small per-run
    palette: repeated identical calls around perturbing ops are what expose
    caching / leaked state, and it keeps the number of distinct reference
    computations per run small."""

    def __init__(self, rng):
        self.texts = [_medium(rng) for _ in range(rng.choice([2, 3, 4]))]
        self.opts = [corpus.draw_opts(rng) for _ in range(rng.choice([2, 3]))]

    def text(self, rng):
        return self.texts[rng.randrange(len(self.texts))]

    def call(self, rng):
        c = _checked_call(rng, self.text)
        if c['api'] == 'format':
            c['opts'] = dict(self.opts[rng.randrange(len(self.opts))])
        return c


def gen_long_history(rng, ctx):
    """Hundreds of cheap calls from a small palette: state that only
    degrades with volume (a bounded cache that evicts, a counter, a list
    that grows) needs more than 25 operations to show."""
    texts = [_tiny(rng) for _ in range(4)] + [_short(rng) for _ in range(2)]
    optsets = [corpus.draw_opts(rng) for _ in range(4)]
    ops_ = []
    for _ in range(rng.randint(300, 500)):
        r = rng.random()
        api = rng.choice(['parse', 'split', 'format', 'format'])
        op = {'op': 'call', 'api': api,
              'inp': {'t': 'str', 'v': rng.choice(texts)},
              'opts': dict(rng.choice(optsets)) if api == 'format' else None,
              'enc': None}
        if r < 0.01:
            ops_.append({'op': rng.choice(['re_purge', 'gc', 'mut_newtype',
                                           'mut_tree'])})
        elif r < 0.02:
            ops_.append(_raising_call(rng))
        ops_.append(op)
    # volume in distinct *words*, not calls: thousands of identifiers the
    # process has never seen pass through the lexer (bounded caches evict)
    for j in range(rng.choice([1, 2, 3])):
        vol = {'op': 'call', 'api': rng.choice(['tokenize', 'split']),
               'inp': {'t': 'words', 'n': rng.choice([600, 3000, 5000]),
                       'k': j},
               'opts': None, 'enc': None}
        ops_.insert(rng.randrange(0, max(1, len(ops_) // 2)), vol)
    return {'ops': ops_, 'timeout': 300.0, 'long': True}


def gen_variant_history(rng, ctx):
    """Fault-free: spacing variants of one or two statements under option sets
    that share a filter (corpus.gen_dense / draw_opts_family), every
    (variant, options) pair called repeatedly in a shuffled order.  What one
    call leaves behind in an object that outlives it (a token or helper kept
    at module or class level, then changed in place by another filter) shows
    only in a call whose text has a different neighbourhood around the same
    construct."""
    tpls = rng.sample(corpus.DENSE_TEMPLATES, rng.choice([1, 1, 2]))
    texts = [corpus.gen_dense(rng, rng.choice(tpls))
             for _ in range(rng.choice([3, 4, 5]))]
    fam = corpus.draw_opts_family(rng, rng.choice([2, 3]))
    ops_ = []
    for _ in range(rng.randint(10, 28)):
        r = rng.random()
        if r < 0.8:
            api, opts = 'format', dict(rng.choice(fam))
        elif r < 0.9:
            api, opts = 'parse', None
        else:
            api, opts = 'split', None
        ops_.append({'op': 'call', 'api': api,
                     'inp': {'t': 'str', 'v': rng.choice(texts)},
                     'opts': opts, 'enc': None})
    spec = {'ops': ops_, 'timeout': 300.0, 'variant': True}
    if rng.random() < 0.15:
        nthr = rng.choice([2, 3])
        spec['hop'] = [rng.randrange(nthr) for _ in ops_]
    return spec


def gen_history(rng, ctx):
    if rng.random() < 0.01:
        return gen_long_history(rng, ctx)
    if rng.random() < 0.12:
        return gen_variant_history(rng, ctx)
    pal = _Palette(rng)
    n = rng.randint(3, 25)
    ops_ = []
    open_handles = []
    nh = 0
    swarm = {k: rng.random() < 0.7 for k in
             ('raise', 'interrupt', 'gens', 'reconf', 'mutate', 'headroom')}
    first_fault_bias = rng.random() < 0.5
    if swarm['mutate'] and rng.random() < 0.1:
        # the process's very first use of the library is a caller's private,
        # differently configured Lexer - before the default one exists
        ops_.append({'op': 'lex_separate', 'which': 'remap'})
    while len(ops_) < n:
        r = rng.random()
        is_first = not [o for o in ops_ if o['op'] != 'lex_separate']
        if is_first and first_fault_bias and (swarm['interrupt']
                                              or swarm['headroom']):
            r = 0.58 if swarm['interrupt'] and rng.random() < 0.6 else 0.97
        if r < 0.45:
            ops_.append(pal.call(rng))
        elif r < 0.55:
            if swarm['raise']:
                ops_.append(_raising_call(rng))
        elif r < 0.66:
            if swarm['interrupt']:
                op = pal.call(rng)
                late = False
                if rng.random() < 0.3:
                    # land inside the layout filters' with indent/offset
                    # blocks: they run last, on layout-heavy text
                    op = {'op': 'call', 'api': 'format',
                          'inp': {'t': 'str', 'v': rng.choice(corpus.RICH)},
                          'opts': dict(rng.choice(
                              [{'reindent': True},
                               {'reindent_aligned': True},
                               {'reindent': True, 'comma_first': True}])),
                          'enc': None}
                    late = True
                key = ops.ref_key(op['api'], op['inp'], op['opts'],
                                  op['enc'])
                rf = ctx.ref(key, steps=True)
                total = max(2, rf.get('steps', 50))
                if rng.random() < 0.5 and rf.get('locs'):
                    # address the interrupt by *distinct source location*
                    # (first visit of the j-th new line): every line of a
                    # small window is reached once, however long the hot
                    # loops around it run
                    op['fault'] = {'kind': 'interrupt',
                                   'loc': rng.randint(1, rf['locs'])}
                    ops_.append(op)
                    continue
                if late:
                    at = rng.randint(total // 2, total)
                elif is_first and rng.random() < 0.6:
                    at = rng.randint(1, min(total, 280))
                elif rng.random() < 0.2:
                    at = max(1, total - rng.randint(0, 30))
                else:
                    at = rng.randint(1, total)
                op['fault'] = {'kind': 'interrupt', 'at': at}
                ops_.append(op)
        elif r < 0.82:
            if not swarm['gens']:
                continue
            rr = rng.random()
            if rr < 0.35 or not open_handles:
                nh += 1
                h = 'g%d' % nh
                text = rng.choice(
                    [t for t in corpus.MEDIUM if t.count(';') >= 2]
                    + ["select 1; select 2; select 3; select 4"])
                ops_.append({'op': 'gen_open', 'h': h,
                             'inp': {'t': rng.choice(['str', 'sio']),
                                     'v': text}, 'enc': None})
                open_handles.append(h)
            else:
                h = rng.choice(open_handles)
                if rr < 0.7:
                    nx = {'op': 'gen_next', 'h': h,
                          'n': rng.choice([1, 1, 2])}
                    if swarm['interrupt'] and rng.random() < 0.15:
                        nx['fault'] = {'kind': 'interrupt',
                                       'at': rng.randint(1, 1500)}
                        open_handles.remove(h)
                    ops_.append(nx)
                elif rr < 0.78:
                    ops_.append({'op': 'gen_close', 'h': h})
                    open_handles.remove(h)
                elif rr < 0.86:
                    ops_.append({'op': 'gen_throw', 'h': h})
                    open_handles.remove(h)
                elif rr < 0.93:
                    ops_.append({'op': 'gen_drop', 'h': h})
                    open_handles.remove(h)
                else:
                    ops_.append({'op': 'gen_finish', 'h': h})
                    open_handles.remove(h)
        elif r < 0.88:
            if not swarm['reconf']:
                continue
            if rng.random() < 0.35:
                # the documented recipe for a custom configuration: clear,
                # own rules / own dictionary, then (some of) the library's
                # own dictionaries in some order
                ops_.append({'op': 'lex_clear'})
                ops_.append({'op': 'lex_set_regex',
                             'which': rng.choice(['extended', 'stock',
                                                  'stock'])})
                stock = ['KEYWORDS_COMMON', 'KEYWORDS_ORACLE',
                         'KEYWORDS_PLPGSQL', 'KEYWORDS_HQL', 'KEYWORDS']
                rng.shuffle(stock)
                seq = [{'op': 'lex_add_stock', 'which': w}
                       for w in stock[:rng.randint(1, 4)]]
                seq.insert(rng.randrange(len(seq) + 1), {'op': 'lex_add_kw'})
                ops_.extend(seq)
            for _ in range(rng.randint(0 if ops_ and ops_[-1]['op'].startswith(
                    'lex_') else 1, 3)):
                k = rng.random()
                if k < 0.3:
                    ops_.append({'op': 'lex_clear'})
                elif k < 0.55:
                    ops_.append({'op': 'lex_set_regex',
                                 'which': rng.choice(['subset', 'extended',
                                                      'remap'])})
                elif k < 0.8:
                    ops_.append({'op': 'lex_add_kw'})
                else:
                    ops_.append({'op': 'lex_add_stock',
                                 'which': rng.choice(
                                     ['KEYWORDS', 'KEYWORDS_COMMON',
                                      'KEYWORDS_ORACLE', 'KEYWORDS_MYSQL'])})
            for _ in range(rng.randint(0, 2)):
                ops_.append(pal.call(rng))
            if rng.random() < 0.4:
                # the same call before and after a fault, all under the
                # custom configuration
                rep = pal.call(rng)
                ops_.append(copy.deepcopy(rep))
                flt = pal.call(rng)
                if rng.random() < 0.5:
                    flt = {'op': 'call', 'api': rng.choice(
                        ['parse', 'format', 'parsestream']),
                        'inp': {'t': 'nest', 'c': rng.choice(
                            ['paren', 'func', 'case', 'subquery']),
                            'd': rng.choice([10, 25, 40])},
                        'opts': None, 'enc': None,
                        'fault': {'kind': 'headroom',
                                  'H': rng.randint(3, 60), 'P': 0}}
                    if flt['api'] == 'format':
                        flt['opts'] = {'reindent': True}
                else:
                    flt['fault'] = {'kind': 'interrupt',
                                    'at': rng.randint(1, 800)}
                ops_.append(flt)
                ops_.append(copy.deepcopy(rep))
            if open_handles and rng.random() < 0.4:
                ops_.append({'op': 'gen_next', 'h': rng.choice(open_handles),
                             'n': 1})
            ops_.append({'op': 'lex_default_init'})
        elif r < 0.95:
            if not swarm['mutate']:
                continue
            k = rng.random()
            if k < 0.3:
                ops_.append({'op': 'mut_tree'})
            elif k < 0.5:
                ops_.append({'op': 'mut_newtype'})
            elif k < 0.7:
                ops_.append({'op': 're_purge'})
            elif k < 0.85:
                ops_.append({'op': 'lex_separate',
                             'which': rng.choice(['tiny', 'remap'])})
            else:
                ops_.append({'op': 'gc'})
        else:
            if not swarm['headroom']:
                continue
            c = rng.choice(corpus.CONSTRUCTS)
            api = rng.choice(['parse', 'split', 'format', 'parsestream'])
            opts = corpus.draw_opts(rng) if api == 'format' else None
            ops_.append({'op': 'call', 'api': api,
                         'inp': {'t': 'nest', 'c': c,
                                 'd': rng.choice([0, 3, 10, 25, 40])},
                         'opts': opts, 'enc': None,
                         'fault': {'kind': 'headroom',
                                   'H': rng.randint(1, 140),
                                   'P': rng.choice([0, 0, 7, 50])}})
    # always end with some checked calls and drain the generators
    for h in open_handles:
        if rng.random() < 0.7:
            ops_.append({'op': 'gen_finish', 'h': h})
    for _ in range(rng.randint(1, 3)):
        ops_.append(pal.call(rng))
    spec = {'ops': ops_, 'timeout': 300.0}
    if rng.random() < 0.2:
        # the history moves between 2-3 long-lived threads (still strictly
        # one call at a time): per-thread state that outlives a call shows
        nthr = rng.choice([2, 3])
        spec['hop'] = [rng.randrange(nthr) for _ in ops_]
    return spec


POLICY_P = [0.001, 0.003, 0.01, 0.01, 0.03, 0.05, 0.1, 0.3]


def gen_threads(rng, ctx, pop, idx):
    nth = rng.choice([2, 2, 3, 3, 4])
    instr = (pop == 'I' and rng.random() < 0.4)
    if pop == 'I':
        def text_fn(r):
            return _tiny(r) if r.random() < 0.7 else _short(r)
    else:
        def text_fn(r):
            x = r.random()
            if x < 0.25:
                return _tiny(r)
            if x < 0.85:
                return _short(r)
            t = corpus.MEDIUM[r.randrange(len(corpus.MEDIUM))]
            return t if len(t) <= 200 else _short(r)
    # steady state: in half of the runs every thread formats with the SAME
    # option set (so the same filter classes run concurrently) on texts that
    # drive the stateful layout filters through their nested blocks
    shared_opts = None
    if (pop == 'S' and rng.random() < 0.5) or \
            (pop == 'I' and rng.random() < 0.3):
        shared_opts = corpus.draw_opts(rng)
        if not shared_opts or rng.random() < 0.5:
            shared_opts = dict(rng.choice(
                [o for o in corpus.LAYOUT_OPTS if o]
                + [{'output_format': 'python', 'reindent': True},
                   {'strip_comments': True, 'reindent_aligned': True}]))
    progs = []
    for t in range(nth):
        prog = []
        nops = rng.choice([1, 1, 2]) if pop == 'I' else rng.choice([1, 2, 3])
        for _ in range(nops):
            r = rng.random()
            if pop == 'I' and r < 0.3:
                prog.append({'k': 'getinst'})
            elif r < 0.45 and pop == 'S':
                text = rng.choice(
                    ["select 1; select 2; select 3", "a; b; c; d",
                     "select a from b; update t set a = 1; select 3;",
                     "select 1;\n\n\nselect 2;   select 3\n;select 4"])
                prog.append({'k': 'lazy', 'inp': {'t': 'str', 'v': text}})
            elif pop == 'S' and r > 0.96:
                # moderately nested input in several threads at once:
                # anything that counts nesting depth process-wide shows
                prog.append({'k': 'call',
                             'api': rng.choice(['parse', 'format']),
                             'inp': {'t': 'nest',
                                     'c': rng.choice(['paren', 'bracket',
                                                      'func']),
                                     'd': rng.choice([30, 45, 60])},
                             'opts': rng.choice([None,
                                                 {'strip_comments': True}])})
                if prog[-1]['api'] == 'parse':
                    prog[-1]['opts'] = None
                elif prog[-1]['opts'] is None:
                    prog[-1]['opts'] = {'strip_whitespace': True}
            elif shared_opts is not None and r < 0.9:
                text = rng.choice(corpus.RICH) if rng.random() < 0.7 \
                    else text_fn(rng)
                prog.append({'k': 'call', 'api': 'format',
                             'inp': {'t': 'str', 'v': text},
                             'opts': dict(shared_opts)})
            else:
                c = _checked_call(rng, text_fn)
                prog.append({'k': 'call', 'api': c['api'], 'inp': c['inp'],
                             'opts': c['opts']})
        progs.append(prog)
    # fault-injecting variant
    fault_variant = rng.random() < 0.25
    if fault_variant:
        t = rng.randrange(nth)
        j = rng.randrange(len(progs[t]))
        op = progs[t][j]
        if rng.random() < 0.7 or op['k'] != 'call':
            if pop == 'I' and j == 0 and rng.random() < 0.7:
                at = rng.randint(1, 260)
            else:
                at = rng.randint(1, 2500)
            op['int'] = at
        else:
            rc = _raising_call(rng)
            progs[t][j] = {'k': 'call', 'api': rc['api'], 'inp': rc['inp'],
                           'opts': rc['opts'], 'enc': rc['enc']}
    # schedule policy
    sub = (idx // 4)
    pr = rng.random()
    warm = False if pop == 'I' else rng.choice([True, 'lexer'])
    cold = None
    sweep_kind = rng.random()
    if sweep_kind < 0.4 and not fault_variant:
        # sweep a single pre-emption over the "cold-only" lines of thread
        # 0's first op: code that runs on first use only
        if pop == 'S':
            warm = 'lexer'
        op0 = progs[0][0]
        ck = ('c20_cold', ops.ref_key(
            op0.get('api', op0['k']), op0.get('inp'), op0.get('opts'),
            None), str(warm))
        locs = ctx.memo.get(ck)
        if locs is None:
            locs = ctx.memo[ck] = ctx.in_fork('C20', 'measure_cold',
                                              [op0, warm])
        # 0.25: lines that run on first use only; 0.15: any source line of
        # the op (first visit) - a single pre-emption there, the other
        # threads run to completion, then thread 0 resumes
        cold = locs['cold'] if sweep_kind < 0.25 else locs['all']
    if cold:
        loc = cold[(sub // 4) % len(cold)] if sweep_kind < 0.25 \
            else cold[rng.randrange(len(cold))]
        policy = {'kind': 'coldline', 'file': loc[0], 'line': loc[1],
                  'ncold': len(cold),
                  'sweep': 'cold' if sweep_kind < 0.25 else 'any'}
    elif pop == 'I' and sub % 3 == 0:
        # stratified single pre-emption over the initialisation window
        win = ctx.memo.get('c20_window')
        if win is None:
            win = ctx.memo['c20_window'] = ctx.in_fork(
                'C20', 'measure_window', None)
        first = progs[0][0]
        if first['k'] != 'getinst':
            first = progs[0][0] = _thread_op('parse')
            first.pop('int', None)
        kind = 'getinst' if first['k'] == 'getinst' else 'parse'
        w = win['%s/%d' % (kind, int(instr))]['window'] + 3
        k = 1 + ((sub // 3) % w)
        sw = [[-1, 0, 0], [0, k, rng.randrange(1, nth)]]
        for _ in range(rng.choice([0, 0, 1, 2])):
            sw.append([rng.randrange(nth), rng.randint(1, 400),
                       rng.randrange(nth)])
        policy = {'kind': 'explicit', 'sw': sw, 'strat_k': k, 'strat_w': w}
    elif pr < 0.55:
        policy = {'kind': 'random', 'p': rng.choice(POLICY_P)}
    else:
        est = _estimate_steps(ctx, progs, pop)
        d = rng.choice([1, 2, 3, 4])
        prio = list(range(nth))
        rng.shuffle(prio)
        policy = {'kind': 'pct', 'prio': prio,
                  'changes': sorted(rng.randint(1, max(2, est))
                                    for _ in range(d - 1))}
    # warm == 'lexer': only the lexer is warm - every filter, grouping pass
    # and lazily created object still sees its first use under concurrency
    return {'threads': progs, 'policy': policy, 'instr': instr,
            'warm': warm, 'rseed': rng.getrandbits(48),
            'timeout': 300.0}


def _op_key(op):
    if op['k'] == 'getinst':
        return ops.ref_key('tokenize', {'t': 'str', 'v': corpus.PROBE_I},
                           None, None)
    if op['k'] == 'lazy':
        return ops.ref_key('parse', op['inp'], None, None)
    return ops.ref_key(op['api'], op['inp'], op.get('opts'), op.get('enc'))


def _estimate_steps(ctx, progs, pop):
    total = 0
    for prog in progs:
        for op in prog:
            total += ctx.ref(_op_key(op), steps=True).get('steps', 1000)
    return total


def needed_refs(spec):
    keys = []
    if 'ops' in spec:
        for op in spec['ops']:
            if op['op'] == 'call':
                keys.append(ops.ref_key(op['api'], op['inp'], op.get('opts'),
                                        op.get('enc')))
            elif op['op'] == 'gen_open':
                keys.append(ops.ref_key('parse', op['inp'], None,
                                        op.get('enc')))
    else:
        for prog in spec['threads']:
            for op in prog:
                keys.append(_op_key(op))
    return list(dict.fromkeys(keys))


# ---------------------------------------------------------------------------
# execution (inside the forked child)

def run(spec, refs):
    if 'ops' in spec:
        return run_history(spec, refs)
    return run_threads(spec, refs)


PERTURBING = {'gen_close', 'gen_throw', 'gen_drop', 'lex_clear',
              'lex_add_stock',
              'lex_set_regex', 'lex_add_kw', 'lex_default_init', 'mut_tree',
              'mut_newtype', 're_purge', 'lex_separate'}


class _Hopper:
    """Executes callables one at a time on a few long-lived worker threads
    (strictly sequentially: the caller waits for each one), so that a
    history can move between threads without any concurrency."""

    def __init__(self, n):
        import queue
        import threading
        self.qs = [queue.Queue() for _ in range(n)]
        self.done = queue.Queue()
        for q in self.qs:
            threading.Thread(target=self._loop, args=(q,),
                             daemon=True).start()

    def _loop(self, q):
        sys.setrecursionlimit(max(sys.getrecursionlimit(), ops.AMPLE))
        while True:
            fn = q.get()
            try:
                self.done.put(('ok', fn()))
            except BaseException as e:           # noqa
                self.done.put(('exc', e))

    def call(self, t, fn):
        self.qs[t % len(self.qs)].put(fn)
        kind, val = self.done.get()
        if kind == 'exc':
            raise val
        return val


def run_history(spec, refs):
    ses = ops.Session()
    hopper = _Hopper(max(spec['hop']) + 1) if spec.get('hop') else None
    viols = []
    custom_seen = {}
    perturbed = False
    nontrivial = False
    sigparts = []
    nchecked = 0
    for i, op in enumerate(spec['ops']):
        st0 = ops.interp_state()
        lim0 = sys.getrecursionlimit()
        if hopper is not None:
            rec = hopper.call(spec['hop'][i % len(spec['hop'])],
                              lambda op=op: ses.do(op))
        else:
            rec = ses.do(op)
        kind = op['op']
        d_ = ops.state_diff(st0, ops.interp_state())
        if sys.getrecursionlimit() != lim0:
            d_['recursionlimit'] = [lim0, sys.getrecursionlimit()]
        if d_ and kind not in ('gc',):
            viols.append({
                'cls': 'history:interp-state', 'op_index': i,
                'msg': 'operation #%d (%s) left interpreter-global state '
                       'changed: %s - later calls whose outcome depends on '
                       'it now depend on this history' % (i, kind, d_)})
        if kind == 'call':
            out = rec['out']
            ref = refs.get(rec['key'])
            faulted = rec.get('faulted')
            fk = op.get('fault', {}).get('kind') if faulted else None
            sigparts.append('%s%s%s' % (
                op['api'][0:2], ':' + fk[0] if fk else '',
                '!' if out['k'] != 'ok' else ''))
            if not rec['default_config']:
                ses.stat('call_while_reconfigured')
                # no pristine reference exists for a custom configuration,
                # but while ONE configuration is in force identical calls
                # must agree with each other, whatever happened in between
                if not faulted and out['k'] != 'int':
                    ck = (rec['epoch'], rec['key'])
                    prev = custom_seen.get(ck)
                    if prev is None:
                        custom_seen[ck] = out
                    else:
                        ses.stat('custom_config_repeat_checked')
                        if not canon.same(out, prev):
                            viols.append({
                                'cls': 'history:custom-config',
                                'op_index': i, 'api': op['api'],
                                'got': canon.short(out),
                                'want': canon.short(prev),
                                'msg': 'call #%d %s, made while a custom '
                                       'lexer configuration is in force, '
                                       'differs from the identical earlier '
                                       'call under the same configuration'
                                       % (i, op['api'])})
                if out['k'] != 'ok':
                    perturbed = True
                continue
            if out['k'] == 'int':
                perturbed = True
                continue
            if fk == 'headroom' and out['k'] == 'exc' and out['t'] in (
                    'SQLParseError', 'RecursionError'):
                perturbed = True
                continue
            nchecked += 1
            if perturbed:
                nontrivial = True
            if not canon.same(out, ref):
                viols.append({
                    'cls': 'history:' + _cls(out, ref),
                    'op_index': i, 'api': op['api'],
                    'got': canon.short(out), 'want': canon.short(ref),
                    'msg': 'call #%d %s returned a result different from '
                           'the pristine-process reference' % (i, op['api'])})
            if out['k'] == 'exc':
                perturbed = True
        elif kind in ('gen_next', 'gen_finish'):
            sigparts.append(kind[4])
            if rec.get('skipped') or rec.get('dirty'):
                continue
            if rec.get('state') == 'interrupted':
                perturbed = True
                continue
            ref = refs.get(rec['key'])
            if ref is None or ref['k'] != 'ok':
                continue
            want = ref['sd']
            got = rec['got']
            bad = None
            if rec['state'] == 'raised':
                bad = 'generator raised %s' % canon.short(rec['exc'])
            elif got != want[:len(got)]:
                bad = 'generator yielded a different statement sequence'
            elif rec['state'] == 'exhausted' and len(got) != len(want):
                bad = 'generator ended after %d of %d statements' % (
                    len(got), len(want))
            nchecked += 1
            if perturbed or len(ses.gens) > 1:
                nontrivial = True
            if bad:
                viols.append({'cls': 'history:lazy', 'op_index': i,
                              'msg': 'open parsestream pipeline %s: %s'
                                     % (rec['h'], bad),
                              'got': str(got), 'want': str(want)})
        else:
            sigparts.append(kind[:3] + kind[-2:])
            if kind in PERTURBING:
                perturbed = True
            if kind == 'gen_throw' and rec.get('other_exc'):
                # how the pipeline reports an exception thrown into it is
                # not part of C20: counted, never flagged
                ses.stat('gen_throw_came_back_as_other_exception')
    st = dict(ses.stats)
    st['ops'] = len(spec['ops'])
    if spec.get('long'):
        st['long_histories'] = 1
    if spec.get('variant'):
        st['variant_histories'] = 1
    if spec.get('hop'):
        st['thread_hopping_histories'] = 1
    st['checked_ops'] = nchecked
    return {'status': 'violation' if viols else 'ok', 'viol': viols,
            'stats': st, 'sig': 'H:' + canon.digest(sigparts)[0],
            'nontrivial': nontrivial, 'digest': str(ses.tracer.digest),
            'outs': _outs_digest(ses.records)}


def _outs_digest(records):
    return canon.digest([[r.get('out', {}).get('k'),
                          r.get('out', {}).get('d') or r.get('out', {}).get('t'),
                          r.get('got')] for r in records])[0]


def _cls(out, ref):
    if out['k'] == 'deadlock':
        return 'deadlock'
    if out['k'] == 'exc':
        return 'exc:' + out['t']
    if ref is not None and ref['k'] == 'exc':
        return 'ok-instead-of-exc'
    return 'wrong-result'


def _exec_thread_op(sched, tid, op, records):
    import sqlparse
    from sqlparse.lexer import Lexer
    inv = sched.step
    k = op['k']
    if op.get('int'):
        sched.int_at[tid] = sched.lstep[tid] + op['int']
    rec = {'tid': tid, 'k': k, 'inv': inv}
    try:
        if k == 'getinst':
            lx = Lexer.get_default_instance()
            out, _ = ops.outcome_of(
                'tokenize', lambda: list(lx.get_tokens(corpus.PROBE_I)))
        elif k == 'lazy':
            obj = ops.materialise(op['inp'])

            def lazy():
                got = []
                for s in sqlparse.parsestream(obj):
                    got.append(s)
                return got
            out, _ = ops.outcome_of('parse', lazy)
        else:
            obj = ops.materialise(op['inp'])
            out, _ = ops.outcome_of(
                op['api'], lambda: ops.raw_call(op['api'], obj,
                                                op.get('opts'),
                                                op.get('enc')))
    except SimInterrupt:
        out = {'k': 'int'}
        sched.rearm(tid)
    finally:
        sched.int_at[tid] = None
    rec['ret'] = sched.step
    rec['out'] = out
    records.append(rec)
    return rec


def run_threads(spec, refs):
    import sqlparse
    from sqlparse.lexer import Lexer
    sys.setrecursionlimit(ops.AMPLE)
    progs = spec['threads']
    nth = len(progs)
    if spec.get('warm') == 'lexer':
        list(sqlparse.lexer.tokenize('select 1'))
    elif spec.get('warm'):
        sqlparse.parse('select 1')
        sqlparse.format('select a from b', reindent=True)
    seq = 0
    for prog in progs:
        for op in prog:
            seq += refs[_op_key(op)].get('steps', 1000) if \
                _op_key(op) in refs else 1000
    budget = 20 * seq + 60000
    file_ids = {f: i + 1 for i, f in enumerate(pkg_files())}
    rng = random.Random(spec.get('rseed', 0))
    s = Sched(nth, spec['policy'], rng, PKG, file_ids, budget,
              instr=spec.get('instr', False))
    s.watch_lock = getattr(Lexer, '_lock', None)
    if not hasattr(s.watch_lock, '_owner'):
        s.watch_lock = None
    records = [[] for _ in range(nth)]

    def mk(t):
        def body(tid):
            for op in progs[t]:
                _exec_thread_op(s, tid, op, records[t])
        return body
    st_before = ops.interp_state()
    lim_before = sys.getrecursionlimit()
    fatal = s.run([mk(t) for t in range(nth)], wall_timeout=spec.get(
        'timeout', 300.0) - 20)
    viols = []
    if not fatal:
        st_after = ops.interp_state()
        st_after.pop('threads', None)
        st_before.pop('threads', None)
        diff = ops.state_diff(st_before, st_after)
        if sys.getrecursionlimit() != lim_before:
            diff['recursionlimit'] = [lim_before, sys.getrecursionlimit()]
        if diff:
            viols.append({
                'cls': 'threads:interp-state',
                'msg': 'after the threads had finished, interpreter-global '
                       'state was left changed: %s - every later call whose '
                       'outcome depends on it (deep nesting vs. the '
                       'recursion limit, memory vs. the collector) now '
                       'depends on this schedule' % (diff,)})
    if fatal:
        if fatal['kind'] in ('walltimeout', 'harness'):
            return {'status': 'harness', 'msg': fatal['msg']}
        viols.append({'cls': 'threads:' + fatal['kind'],
                      'msg': fatal['msg'], 'step': fatal['step']})
    nchecked = 0
    for t in range(nth):
        for j, rec in enumerate(records[t]):
            op = progs[t][j]
            out = rec['out']
            if out['k'] == 'int':
                continue
            ref = refs.get(_op_key(op))
            nchecked += 1
            if not canon.same(out, ref):
                viols.append({
                    'cls': 'threads:' + _cls(out, ref),
                    'thread': t, 'op_index': j, 'op': op['k'],
                    'inv': rec['inv'], 'ret': rec['ret'],
                    'got': canon.short(out), 'want': canon.short(ref),
                    'msg': 'thread %d op %d (%s) returned a result '
                           'different from the pristine-process reference'
                           % (t, j, op.get('api', op['k']))})
        if not fatal and len(records[t]) != len(progs[t]):
            viols.append({'cls': 'threads:incomplete', 'thread': t,
                          'msg': 'thread %d finished %d of %d ops'
                                 % (t, len(records[t]), len(progs[t]))})
    st = {'steps': s.step, 'switches': s.n_switch,
          'lock_acq': s.n_lock_acq, 'lock_blocked': s.n_lock_blocked,
          'instr_points': s.n_instr_points, 'checked_ops': nchecked,
          'threads': nth,
          'policy_' + spec['policy']['kind']: 1,
          'interrupts_fired': sum(s.int_fired)}
    for k, v in s.probes.items():
        st['probe_' + k] = v
    allrec = [r for rs in records for r in rs]
    return {'status': 'violation' if viols else 'ok', 'viol': viols,
            'stats': st, 'sig': '%s:%x' % (spec.get('pop', 'T'), s.sig),
            'nontrivial': s.probes.get('switch_both_in_api', 0) > 0,
            'digest': '%x' % s.digest, 'outs': _outs_digest(allrec),
            'realised': s.realised if (viols or spec.get('want_realised'))
            else None}


def on_crash(spec, st):
    return {'status': 'harness', 'msg': 'child died: ' + st}


def on_timeout(spec, timeout):
    return {'status': 'violation', 'viol': [{
        'cls': 'hang', 'msg': 'the run did not finish within %.0f s of real '
        'time (it normally takes milliseconds to seconds): some call of the history / some thread never returned' % timeout}],
        'stats': {'hangs': 1}, 'sigs': [], 'sigs_nt': [], 'nontrivial': True}



# ---------------------------------------------------------------------------
# minimisation

def to_explicit(spec, result):
    """Turn a failing threaded spec with a PRNG policy into one with the
    realised schedule written out."""
    if 'threads' not in spec or not result.get('realised'):
        return spec
    s2 = copy.deepcopy(spec)
    sw = [[a, b, c] for a, b, c, _k in result['realised']]
    s2['policy'] = {'kind': 'explicit', 'sw': sw}
    return s2


def candidates(spec):
    """Yield strictly smaller specs, coarse to fine."""
    if 'ops' in spec:
        o = spec['ops']
        n = len(o)
        chunk = n // 2
        while chunk >= 1:
            for i in range(0, n, chunk):
                c = copy.deepcopy(spec)
                del c['ops'][i:i + chunk]
                if c['ops']:
                    yield c
            chunk //= 2
        for i, op in enumerate(o):
            if op['op'] == 'call':
                if op.get('opts'):
                    for k in list(op['opts']):
                        c = copy.deepcopy(spec)
                        del c['ops'][i]['opts'][k]
                        yield c
                if op['inp']['t'] in ('sio', 'bytes'):
                    c = copy.deepcopy(spec)
                    c['ops'][i]['inp'] = {'t': 'str', 'v': op['inp']['v']}
                    yield c
                if op['inp'].get('v') and len(op['inp']['v']) > 8 and \
                        op['inp']['t'] == 'str':
                    for t in ('select 1', 'select a from b'):
                        c = copy.deepcopy(spec)
                        c['ops'][i]['inp'] = {'t': 'str', 'v': t}
                        yield c
                f = op.get('fault')
                if f and f['kind'] == 'interrupt' and f.get('at', 0) > 1:
                    for at in (f['at'] // 2, f['at'] - 1):
                        c = copy.deepcopy(spec)
                        c['ops'][i]['fault']['at'] = max(1, at)
                        yield c
                if f and f['kind'] == 'headroom':
                    if f.get('P'):
                        c = copy.deepcopy(spec)
                        c['ops'][i]['fault']['P'] = 0
                        yield c
                    if op['inp']['t'] == 'nest' and op['inp']['d'] > 0:
                        c = copy.deepcopy(spec)
                        c['ops'][i]['inp']['d'] = op['inp']['d'] // 2
                        yield c
        return
    # threads
    progs = spec['threads']
    if len(progs) > 1:
        for t in range(len(progs)):
            c = copy.deepcopy(spec)
            del c['threads'][t]
            pol = c['policy']
            if pol['kind'] == 'explicit':
                def ren(x):
                    return x if x < t else x - 1
                pol['sw'] = [[ren(a) if a >= 0 else a, b, ren(cn)]
                             for a, b, cn in pol['sw']
                             if a != t and cn != t]
            elif pol['kind'] == 'pct':
                del pol['prio'][t]
            yield c
    for t, prog in enumerate(progs):
        if len(prog) > 1:
            for j in range(len(prog)):
                c = copy.deepcopy(spec)
                del c['threads'][t][j]
                yield c
    pol = spec['policy']
    if pol['kind'] == 'explicit':
        sw = pol['sw']
        n = len(sw)
        chunk = max(1, n // 2)
        while chunk >= 1:
            for i in range(0, n, chunk):
                c = copy.deepcopy(spec)
                del c['policy']['sw'][i:i + chunk]
                yield c
            if chunk == 1:
                break
            chunk //= 2
    if spec.get('instr'):
        c = copy.deepcopy(spec)
        c['instr'] = False
        yield c
    for t, prog in enumerate(progs):
        for j, op in enumerate(prog):
            if op['k'] == 'call':
                if op.get('opts'):
                    c = copy.deepcopy(spec)
                    c['threads'][t][j]['opts'] = None if \
                        op['api'] != 'format' else {}
                    yield c
                if op['inp'].get('v') and op['inp']['v'] != 'select 1':
                    c = copy.deepcopy(spec)
                    c['threads'][t][j]['inp'] = {'t': 'str',
                                                 'v': 'select 1'}
                    yield c
            if op.get('int', 0) > 1:
                for at in (op['int'] // 2, op['int'] - 1):
                    c = copy.deepcopy(spec)
                    c['threads'][t][j]['int'] = max(1, at)
                    yield c


def viol_class(result):
    v = result.get('viol') or []
    return v[0]['cls'].split(':')[0] if v else None


RULE = (
    "A run is one forked, initially pristine process executing one seeded "
    "spec: population H = a 3-25 op call history (checked calls, raising "
    "calls, interrupted calls, stack-exhausted calls, lazy parsestream "
    "pipelines advanced/closed/thrown-into/dropped, lexer reconfiguration "
    "closed by default_initialization(), caller-side mutation); populations "
    "I (fresh lexer: first-call race) and S (warm lexer) = 2-4 real threads "
    "stepped one at a time by the seeded scheduler (random-walk, PCT, a "
    "stratified single pre-emption over the lexer initialisation window, "
    "or a single pre-emption at a source line the first op executes on "
    "first use only / at any of its lines, measured on the tree under "
    "test; line or instruction granularity; S also lexer-only warm, shared "
    "option sets, nested inputs), optionally with an injected interrupt or "
    "raising call. 1% of the histories are long (300-500 calls, statements "
    "with up to 5000 never-seen identifiers). Non-trivial: H = at least one perturbing op "
    "(raise, interrupt, abandon, reconfigure, mutate) precedes a checked "
    "op; I/S = at least one context switch happened while both the "
    "descheduled and the resumed thread were inside a sqlparse API call. "
    "Distinct: H = distinct sequences of (op kind, fault kind, raised?) ; "
    "I/S = distinct schedule signatures (hash of the ordered (thread, "
    "file:line, next thread) at every context switch). distinct_nontrivial "
    "counts signatures of non-trivial runs only.")

TIERS = {'quick': 10000, 'thorough': 300000}
WALL_CAP = {'quick': 240, 'thorough': 3300}
DET_SAMPLE = {'quick': 24, 'thorough': 120}
LEVEL = 'exploration'

PROBES = ['probe_descheduled_holding_lexer_lock',
          'probe_blocked_on_lexer_lock', 'probe_two_threads_in_get_tokens',
          'probe_two_threads_in_same_filter_class',
          'probe_two_threads_in_grouping', 'probe_interrupt_fired',
          'probe_interrupt_in_lexer_init',
          'probe_interrupt_while_holding_lexer_lock',
          'probe_coldline_preemption_fired', 'gen_resumed',
          'gen_closed', 'gen_thrown', 'gen_dropped', 'reconfigured',
          'interrupt_fired', 'interrupt_in_lexer_init',
          'interrupt_in_lazy_pipeline',
          'interrupt_in_indent_filter', 'interrupt_in_splitter',
          'headroom_fired', 'instr_points', 'long_histories',
          'custom_config_repeat_checked', 'thread_hopping_histories']

COMPONENTS = {
    'real': ['all of sqlparse (lexer, splitter, grouping, filters, '
             'formatter) from /repo working tree', 'CPython threads '
             '(threading.Thread) parked/released one at a time',
             'the interpreter\'s own recursion check (headroom faults)',
             're module and its compile cache', 'generators / GC'],
    'stub': ['threading.Lock/RLock blocking behaviour (SimLock: blocking is '
             'a scheduler state)', 'choice of the runnable thread (seeded '
             'policy)', 'asynchronous interruption (SimInterrupt raised '
             'from the trace function)', 'process freshness (fork of a '
             'worker that imported but never called sqlparse)']}

ASSUMPTIONS = [
    'CPython 3.12 GIL semantics: pre-emption inside one C-level operation '
    'is not representable; pre-emption points are source lines of sqlparse '
    'frames (and bytecode instructions of sqlparse.lexer outside its hot '
    'loops in instruction mode)',
    'a forked child of an interpreter that imported sqlparse but never '
    'called it is equivalent to a fresh process (checked by the '
    'fresh-interpreter leg of the determinism self-test)',
    'the re compile cache is pre-warmed with the lexer patterns in the '
    'worker; runs flagged re_cold purge it first',
    'sampling: a clean batch is evidence over the seeds run, not a proof']


def match_known(ent, spec, result):
    return False


def evidence(tier, seed, agg, meta):
    from sim import evid
    return evid.build(CHECK, tier, seed, LEVEL, agg, meta, RULE, PROBES,
                      COMPONENTS, ASSUMPTIONS)
