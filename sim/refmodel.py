"""The reference model: the result of *this very call* made as the first and
only call of a pristine, single-threaded process with ample stack.  Computed
by the real code, in its own forked child (see worker.Ctx.ref)."""
import json
import sys

from sim import ops
from sim.boot import PKG
from sim.sched import LineTracer


def compute(key, want_steps=False):
    api, inp, opts, enc = json.loads(key)
    sys.setrecursionlimit(ops.AMPLE)
    obj = ops.materialise(inp)
    if not want_steps:
        out, _val = ops.outcome_of(
            api, lambda: ops.raw_call(api, obj, opts, enc))
        return out
    tr = LineTracer(PKG)
    tr.arm(None, count_locs=True)
    try:
        out, _val = ops.outcome_of(
            api, lambda: ops.raw_call(api, obj, opts, enc))
    finally:
        n = tr.disarm()
    out['steps'] = n
    out['locs'] = tr.nloc
    return out
