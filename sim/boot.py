"""Worker bootstrap: put /repo's working tree first on sys.path, install the
simulated lock factories *before* sqlparse is imported, import every
sqlparse sub-module (so no import ever happens inside a simulated run), and
assert that what was imported really lives under the repository.

Nothing here ever *calls* sqlparse: a worker stays pristine so that every
forked child starts as "a process that has imported the library and not yet
used it".
"""
import os
import sys

REPO = os.environ.get('SQLPARSE_VERIF_REPO', '/repo')
PKG = os.path.join(REPO, 'sqlparse') + os.sep

_booted = False


def boot():
    global _booted
    if _booted:
        return sys.modules['sqlparse']
    sys.dont_write_bytecode = True
    if sys.path[0] != REPO:
        sys.path.insert(0, REPO)
    from sim import sched
    sched.install_lock_factories()
    import importlib
    import pkgutil
    import sqlparse
    for m in pkgutil.walk_packages(sqlparse.__path__, 'sqlparse.'):
        if m.name.endswith('__main__'):
            continue
        importlib.import_module(m.name)
    f = os.path.realpath(sqlparse.__file__)
    if not f.startswith(os.path.realpath(REPO) + os.sep):
        sys.stderr.write('HARNESS-ERROR sqlparse imported from %s, not %s\n'
                         % (f, REPO))
        sys.exit(2)
    # modules the runs need; imported now so that no import lock is ever
    # taken inside a simulated run
    import argparse  # noqa
    import codecs  # noqa
    import io  # noqa
    import encodings.idna  # noqa
    for enc in ('utf-8', 'latin-1', 'cp1252', 'cp1251', 'koi8-r', 'gbk',
                'shift_jis', 'utf-16', 'utf-32', 'utf-8-sig',
                'unicode-escape', 'ascii', 'big5', 'euc_kr', 'iso8859-15'):
        codecs.lookup(enc)
    # Warm the *re* module's compile cache with the lexer's patterns (data
    # only: nothing of sqlparse is called).  Tracing through sre's pure
    # Python compiler costs ~50 ms per fresh-lexer run otherwise; runs that
    # want a cold cache call re.purge() themselves (spec flag "re_cold").
    import re
    from sqlparse import keywords
    for rx, _tt in keywords.SQL_REGEX:
        re.compile(rx, re.IGNORECASE | re.UNICODE)
    with_lines()        # computed once here, inherited by every fork
    _booted = True
    return sqlparse


_pkg_files = None


def pkg_files():
    """Sorted list of the package's source files (for stable location ids)."""
    global _pkg_files
    if _pkg_files is None:
        _pkg_files = _walk_pkg()
    return _pkg_files


def _walk_pkg():
    out = []
    for root, _dirs, files in os.walk(PKG):
        for fn in files:
            if fn.endswith('.py'):
                out.append(os.path.join(root, fn))
    return sorted(out)


_with_lines = None


def with_lines():
    """{filename: set(line numbers)} of the header lines of every ``with``
    statement in the package.  CPython attributes the *normal-exit* call of
    ``__exit__`` to the header line and that code is not covered by the
    statement's own exception handler, so an exception raised from a trace
    callback at such a line event would skip ``__exit__`` altogether -- an
    artefact no real asynchronous exception produces (the eval loop only
    delivers them at calls, returns and backward jumps).  Injected
    interrupts are therefore deferred to the next traced line."""
    global _with_lines
    if _with_lines is None:
        import ast
        out = {}
        for fn in pkg_files():
            try:
                with open(fn, encoding='utf-8') as f:
                    tree = ast.parse(f.read())
            except (OSError, SyntaxError, ValueError):
                continue
            lines = set()
            for node in ast.walk(tree):
                if isinstance(node, ast.Try):
                    # the header line of a try statement: "acquire(); try:"
                    # is the accepted idiom although an asynchronous
                    # exception could in principle arrive between the two;
                    # not held against the code (DESIGN 10.5)
                    lines.add(node.lineno)
                    # ... and the clean-up code of a finally block itself
                    for st in node.finalbody:
                        lines.update(range(st.lineno,
                                           getattr(st, 'end_lineno',
                                                   st.lineno) + 1))
                if isinstance(node, (ast.With, ast.AsyncWith)):
                    last = max(getattr(it.context_expr, 'end_lineno',
                                       node.lineno) for it in node.items)
                    for it in node.items:
                        if it.optional_vars is not None:
                            last = max(last, getattr(it.optional_vars,
                                                     'end_lineno', last))
                    lines.update(range(node.lineno, last + 1))
            out[fn] = frozenset(lines)
        _with_lines = out
    return _with_lines
