"""C19 — all input forms and front ends give the same result.

Every front end is a client submitting the same text through a different
transport to the same reference model (the str path, computed in a pristine
process).  The str/bytes/StringIO forms are a differential check between
pure calls; the stream and command-line forms run over simulated devices
(chunked raw reads, EINTR, short writes, and reported I/O errors at open,
read, write and close) under the real io stack (DESIGN §5).
"""
import codecs
import copy
import errno
import gc
import io
import random
import sys

from sim import canon, corpus, iofake, ops

CHECK = 'C19'
LEVEL = 'exploration'

ALL_ENCODINGS = ['utf-8', 'latin-1', 'cp1252', 'cp1251', 'koi8-r', 'gbk',
                 'shift_jis', 'utf-16', 'utf-32', 'utf-8-sig', 'big5',
                 'euc_kr', 'iso8859-15', 'ascii']
NON_UTF = ['latin-1', 'cp1252', 'cp1251', 'koi8-r', 'gbk', 'shift_jis',
           'big5', 'euc_kr', 'iso8859-15']
BUF_SIZES = [1, 3, 16, 512, 8192]
# other accepted spellings of codec names (must name the same codec)
ENC_ALIASES = {'utf-8': ['UTF8', 'utf_8', 'U8', 'UTF-8'],
               'latin-1': ['latin1', 'iso-8859-1', 'L1', 'ISO8859-1'],
               'cp1252': ['windows-1252', 'CP1252'],
               'utf-16': ['UTF16', 'utf_16'], 'utf-32': ['UTF32', 'U32'],
               'gbk': ['GBK', 'cp936'], 'shift_jis': ['sjis', 'Shift_JIS'],
               'koi8-r': ['KOI8_R'], 'cp1251': ['windows-1251']}

IN_PATH = '/sim/in.sql'
OUT_PATH = '/sim/out.sql'

# flag -> (argv words, format() keyword arguments), per the documented
# meaning of each flag (independent of cli.py)
FLAG_TABLE = [
    (['-k', 'upper'], {'keyword_case': 'upper'}),
    (['-k', 'lower'], {'keyword_case': 'lower'}),
    (['--keywords', 'capitalize'], {'keyword_case': 'capitalize'}),
    (['-i', 'upper'], {'identifier_case': 'upper'}),
    (['--identifiers', 'lower'], {'identifier_case': 'lower'}),
    (['-i', 'capitalize'], {'identifier_case': 'capitalize'}),
    (['-l', 'python'], {'output_format': 'python'}),
    (['--language', 'php'], {'output_format': 'php'}),
    (['--strip-comments'], {'strip_comments': True}),
    (['-r'], {'reindent': True}),
    (['--reindent'], {'reindent': True}),
    (['-a'], {'reindent_aligned': True}),
    (['--reindent_aligned'], {'reindent_aligned': True}),
    (['-s'], {'use_space_around_operators': True}),
    (['--use_space_around_operators'], {'use_space_around_operators': True}),
]
# flags that only make sense together with -r
REINDENT_SUB = [
    (['--indent_width', '4'], {'indent_width': 4}),
    (['--indent_width', '1'], {'indent_width': 1}),
    (['--indent_width', '8'], {'indent_width': 8}),
    (['--indent_after_first'], {'indent_after_first': True}),
    (['--indent_columns'], {'indent_columns': True}),
    (['--wrap_after', '20'], {'wrap_after': 20}),
    (['--wrap_after', '60'], {'wrap_after': 60}),
    (['--comma_first', 'True'], {'comma_first': True}),
    (['--comma_first', '1'], {'comma_first': True}),
    (['--compact', 'True'], {'compact': True}),
    (['--compact', 'yes'], {'compact': True}),
]
INVALID_FLAGS = [
    ['-r', '--indent_width', '0'],
    ['-r', '--indent_width', '-3'],
    ['-r', '--wrap_after', '-1'],
    ['--indent_width', 'abc'],
    ['--wrap_after', 'x'],
    ['-k', 'camel'],
    ['-i', 'snake'],
    ['-l', 'java'],
    ['--no-such-flag'],
]


def population(idx):
    return 'fault' if idx % 3 == 2 else 'clean'


# ---------------------------------------------------------------------------
# generation

def can_encode(text, enc):
    try:
        text.encode(enc)
        return True
    except (UnicodeError, LookupError):
        return False


def char_boundaries(text, enc):
    """Byte offsets (in text.encode(enc)) that fall *inside* a character."""
    data = text.encode(enc)
    inc = codecs.getincrementalencoder(enc)()
    pos = 0
    bounds = {0}
    for ch in text:
        pos += len(inc.encode(ch))
        bounds.add(pos)
    inside = [p for p in range(1, len(data)) if p not in bounds]
    return data, inside


def draw_text(rng):
    r = rng.random()
    if r < 0.6:
        script = rng.choice(['ascii', 'latin', 'l1', 'l1', 'cyr', 'cjk'])
        text = corpus.gen_sql(rng, script, backslash=rng.random() < 0.5)
    elif r < 0.85:
        text = rng.choice(corpus.MEDIUM + corpus.SHORT)
    else:
        files = corpus.test_files()
        text = rng.choice(files) if files else corpus.MEDIUM[0]
    if rng.random() < 0.012:
        # large: more than one io.DEFAULT_BUFFER_SIZE of text, dense with
        # tokens that span line breaks
        script = rng.choice(['ascii', 'l1', 'cyr', 'cjk'])
        target = rng.choice([8300, 8300, 9000, 12000])
        parts = []
        size = 0
        while size < target:
            p = corpus.gen_sql(rng, script, backslash=False, nstmts=3,
                               multiline=0.9)
            if not p.rstrip().endswith(';'):
                p = p.rstrip() + ';'
            parts.append(p + '\n')
            size += len(p) + 1
        text = ''.join(parts)
    if rng.random() < 0.04:
        text = rng.choice(['', '\n', ' ', ';', '-- only a comment'])
    if rng.random() < 0.1 and text:
        # characters that some layer may treat specially: other line
        # separators (str.splitlines() knows VT, FF, FS-US, NEL, LS, PS),
        # tabs, letters whose case mapping changes their length, astral
        # characters (surrogate pairs in UTF-16), combining marks, NBSP
        ch = rng.choice(['\t', '\x0b', '\x0c', '\x1c', '\x1e', '\x85',
                         '\u2028', '\u2029', '\u00df', '\u0130', '\u0131',
                         '\U0001d4b3', 'e\u0301', '\u00a0', '\u200b',
                         '\ufeff', '\x7f'])
        for _ in range(rng.choice([1, 1, 3])):
            p = rng.randrange(len(text) + 1)
            text = text[:p] + ch + text[p:]
    if rng.random() < 0.05:
        # texts that *begin* like an encoding signature in some other
        # encoding: U+FEFF itself, or the Latin-1 characters whose bytes
        # spell a UTF-16/UTF-8 BOM, a NUL, a UTF-7 signature
        text = rng.choice(['\ufeff', '\ufeff', '\u00ff\u00fe', '\u00fe\u00ff',
                           '\u00ef\u00bb\u00bf', '\x00', '+/v8 ',
                           '\u00ff\u00fe\x00\x00']) + text
    if rng.random() < 0.06:
        # a non-ASCII character as the very last / very first thing of the
        # text: in a single-byte encoding its byte is a UTF-8 lead byte with
        # nothing after it (an *incomplete*, not an invalid sequence), or a
        # continuation byte with nothing before it
        ch = rng.choice(['\u00e9', '\u00c2', '\u00df', '\u00f4', '\u00c3',
                         '\u00e0\u00e9', '\u00f0', '\u00a9', '\u00bf'])
        if rng.random() < 0.75:
            text = text.rstrip('\n') + rng.choice(
                [' -- caf', " '", ' ', ' as caf', ' /* ', ';']) + ch
        else:
            text = ch + rng.choice([' ', '', '\n', ';']) + text
    if rng.random() < 0.3 and text.endswith('\n'):
        text = text.rstrip('\n')       # missing trailing newline
    return text.replace('\r', '')     # CR is added deliberately in gen()


def draw_read_plan(rng, data, inside, faulty, legal=True):
    plan = {}
    n = len(data)
    if n and legal:
        mode = rng.random()
        if mode < 0.25:
            cuts = []
        elif mode < 0.4:
            cuts = list(range(1, n))                   # one byte per read
        else:
            k = rng.choice([1, 2, 3, 5, 12])
            pool = inside if (inside and rng.random() < 0.7) else \
                list(range(1, n))
            cuts = sorted(set(rng.choice(pool) for _ in range(k))) \
                if pool else []
        plan['cuts'] = cuts
        if rng.random() < 0.3:
            plan['eintr'] = sorted(set(rng.randint(1, 6)
                                       for _ in range(rng.choice([1, 2]))))
        inside_set = set(inside)
        plan['mb_offsets'] = [c for c in cuts if c in inside_set]
    if faulty and n:
        plan['fail_at'] = rng.randrange(0, n)
        plan['errno'] = rng.choice([errno.EIO, errno.EIO, errno.ENXIO,
                                    errno.ETIMEDOUT])
    return plan


def draw_write_plan(rng, faulty, is_file):
    plan = {}
    if rng.random() < 0.5:
        plan['short'] = [rng.choice([1, 2, 5, 17, 100])
                         for _ in range(rng.choice([1, 2, 4]))]
    if rng.random() < 0.25:
        plan['eintr'] = [rng.randint(1, 3)]
    if faulty:
        r = rng.random()
        if r < 0.75 or not is_file:
            plan['fail_frac'] = rng.random()
            plan['errno'] = rng.choice([errno.ENOSPC, errno.EPIPE, errno.EIO,
                                        errno.EDQUOT])
        else:
            plan['close_errno'] = rng.choice([errno.EIO, errno.ENOSPC])
    return plan


def draw_cli_flags(rng):
    argv, opts = [], {}
    r = rng.random()
    k = 0 if r < 0.1 else rng.choice([1, 1, 2, 3, 4])
    picks = rng.sample(FLAG_TABLE, k)
    for a, o in picks:
        if any(key in opts for key in o):
            continue
        argv += a
        opts.update(o)
    if opts.get('reindent') or rng.random() < 0.1:
        for a, o in rng.sample(REINDENT_SUB, rng.choice([0, 1, 1, 2, 3])):
            if any(key in opts for key in o):
                continue
            argv += a
            opts.update(o)
    return argv, opts


def gen(seed, idx, tier, ctx):
    rng = random.Random('%s/%s/%d' % (seed, CHECK, idx))
    faulty = population(idx) == 'fault'
    text = draw_text(rng)
    encs = [e for e in ALL_ENCODINGS if can_encode(text, e)]
    enc = rng.choice(encs)
    if rng.random() < 0.5:
        non8 = [e for e in encs if e not in ('utf-8', 'ascii', 'utf-8-sig')]
        if non8:
            enc = rng.choice(non8)
    crlf = False
    if rng.random() < 0.08 and '\n' in text:
        # carriage returns: only through the forms where no text-mode file
        # layer of Python's translates newlines (str, bytes, StringIO, the
        # hand-written stream); TextIOWrapper and the command line are left
        # out for these texts
        crlf = True
        text = text.replace('\n', rng.choice(['\r\n', '\r\n', '\r']))
    data, inside = char_boundaries(text, enc)
    items = []
    n_items = rng.choice([3, 4, 5, 6])
    kinds = ['bytes_enc', 'bytes_utf8', 'bytes_fallback', 'sio', 'stream',
             'stream', 'tstream', 'cli', 'cli', 'cli', 'cli_invalid']
    if len(text) > 8000:
        n_items = rng.choice([2, 3])
        kinds = ['stream', 'tstream', 'sio', 'cli', 'bytes_enc',
                 'bytes_utf8', 'bytes_fallback']
    if crlf:
        kinds = ['bytes_enc', 'bytes_utf8', 'bytes_fallback', 'sio',
                 'tstream', 'tstream']
    spell = enc
    if rng.random() < 0.15 and enc in ENC_ALIASES:
        spell = rng.choice(ENC_ALIASES[enc])
    for _ in range(n_items):
        kind = rng.choice(kinds)
        api = rng.choice(['parse', 'parsestream', 'split', 'format',
                          'format'])
        opts = None
        if api == 'format':
            opts = corpus.draw_opts(rng)
            if len(text) > 8000:
                # layout filters are super-linear on long scripts
                opts = rng.choice([{}, {'keyword_case': 'upper'},
                                   {'identifier_case': 'upper'}])
        elif api == 'split' and rng.random() < 0.2:
            opts = {'strip_semicolon': True}
        if kind == 'bytes_enc':
            items.append({'k': 'api', 'form': 'bytes_enc', 'api': api,
                          'opts': opts, 'enc': enc, 'spell': spell})
        elif kind == 'bytes_utf8':
            items.append({'k': 'api', 'form': 'bytes_utf8', 'api': api,
                          'opts': opts})
        elif kind == 'bytes_fallback':
            cands = [e for e in NON_UTF if can_encode(text, e)]
            rng.shuffle(cands)
            for e in cands:
                b = text.encode(e)
                try:
                    b.decode('utf-8')
                except UnicodeDecodeError:
                    items.append({'k': 'api', 'form': 'bytes_fallback',
                                  'api': api, 'opts': opts, 'enc': e})
                    break
        elif kind == 'sio':
            items.append({'k': 'api', 'form': 'sio', 'api': api,
                          'opts': opts,
                          'enc': rng.choice([None, None, 'ascii', enc])})
        elif kind == 'stream':
            it = {'k': 'api', 'form': 'stream', 'api': api, 'opts': opts,
                  'enc': enc,
                  'decl': rng.choice([None, None, enc, 'ascii']),
                  'buf': rng.choice(BUF_SIZES),
                  'chunk': rng.choice([None, 1, 4, 64]),
                  'rplan': draw_read_plan(rng, data, inside,
                                          faulty and rng.random() < 0.6)}
            items.append(it)
        elif kind == 'tstream':
            n = len(text)
            plan = {}
            if n > 1:
                mode = rng.random()
                if mode < 0.3:
                    plan['cuts'] = list(range(1, n, rng.choice([1, 5, 64])))
                elif mode < 0.8:
                    plan['cuts'] = sorted(set(
                        rng.randrange(1, n)
                        for _ in range(rng.choice([1, 2, 5, 20]))))
            if faulty and n and rng.random() < 0.6:
                plan['fail_at'] = rng.randrange(0, n)
            items.append({'k': 'api', 'form': 'tstream', 'api': api,
                          'opts': opts,
                          'decl': rng.choice([None, None, 'ascii']),
                          'rplan': plan})
        elif kind == 'cli':
            argv, copts = draw_cli_flags(rng)
            if len(text) > 8000:
                argv, copts = rng.choice([
                    ([], {}), (['-k', 'upper'], {'keyword_case': 'upper'})])
            src = rng.choice(['file', 'stdin'])
            dst = rng.choice(['stdout', 'file'])
            it = {'k': 'cli', 'in': src, 'out': dst, 'flags': argv,
                  'opts': copts, 'enc': enc, 'spell': spell,
                  'stdout_enc': rng.choice(['utf-8', 'utf-8', enc, enc,
                                            'ascii', 'latin-1']),
                  'buf': rng.choice(BUF_SIZES),
                  'obuf': rng.choice(BUF_SIZES),
                  'rplan': draw_read_plan(rng, data, inside, False),
                  'wplan': draw_write_plan(rng, False, dst == 'file')}
            if dst == 'file' and rng.random() < 0.3:
                it['stale'] = True
            if dst == 'stdout' and rng.random() < 0.3:
                it['wplan']['tty'] = True      # stdout is a terminal
            if src == 'stdin' and rng.random() < 0.3:
                it['rplan']['tty'] = True      # stdin is a terminal
            if src == 'stdin' and rng.random() < 0.3:
                # the encoding the interpreter set sys.stdin up with
                # (PYTHONIOENCODING / locale) is not the input's
                it['stdin_env_enc'] = rng.choice(['latin-1', 'cp1252',
                                                  'ascii', 'utf-16'])
            if src == 'file' and dst == 'file' and rng.random() < 0.25:
                # format a file in place: -o names the input file itself,
                # possibly under another spelling of its path
                it['inplace'] = rng.choice([IN_PATH, '/sim/./in.sql',
                                            '/sim/sub/../in.sql'])
            if faulty:
                f = rng.random()
                if f < 0.3:
                    it['rplan'] = draw_read_plan(rng, data, inside, True)
                elif f < 0.6:
                    it['wplan'] = draw_write_plan(rng, True, dst == 'file')
                elif f < 0.75 and src == 'file':
                    it['open_r_err'] = rng.choice(
                        [errno.ENOENT, errno.EACCES, errno.EISDIR,
                         errno.EMFILE])
                elif f < 0.9 and dst == 'file':
                    it['open_w_err'] = rng.choice(
                        [errno.EACCES, errno.ENOENT, errno.EROFS])
            items.append(it)
        else:
            items.append({'k': 'cli_invalid', 'in': rng.choice(['file',
                                                                'stdin']),
                          'out': rng.choice(['stdout', 'file']),
                          'flags': list(rng.choice(INVALID_FLAGS)),
                          'enc': enc})
    return {'check': CHECK, 'seed': seed, 'idx': idx, 'text': text,
            'enc': enc, 'faulty': faulty, 'items': items, 'timeout': 300.0}


def _ref_key_for(item, text):
    if item['k'] == 'cli':
        return ops.ref_key('format', {'t': 'str', 'v': text},
                           item['opts'] or {}, None)
    if item['k'] != 'api':
        return None
    api = 'parse' if item['api'] == 'parsestream' else item['api']
    t = text
    if item['form'] == 'bytes_fallback':
        t = text.encode(item['enc']).decode('latin-1')
    return ops.ref_key(api, {'t': 'str', 'v': t}, item['opts'], None)


def needed_refs(spec):
    keys = [_ref_key_for(it, spec['text']) for it in spec['items']]
    return list(dict.fromkeys(k for k in keys if k))


# ---------------------------------------------------------------------------
# execution

def _api_call(item, obj, enc):
    api = item['api']
    return ops.outcome_of(api, lambda: ops.raw_call(api, obj, item['opts'],
                                                    enc))


def run_api_item(item, text, ref, stat, viols, ii):
    form = item['form']
    chan = iofake.Chan()
    enc_arg = None
    if form == 'bytes_enc':
        obj = text.encode(item['enc'])
        enc_arg = item.get('spell') or item['enc']
    elif form == 'bytes_utf8':
        obj = text.encode('utf-8')
    elif form == 'bytes_fallback':
        obj = text.encode(item['enc'])
        if '\\' in text:
            stat('fallback_with_backslash')
    elif form == 'sio':
        obj = io.StringIO(text)
        enc_arg = item.get('enc')
    elif form == 'stream':
        data = text.encode(item['enc'])
        obj = iofake.make_stream(data, item['rplan'], chan, item['enc'],
                                 item.get('buf'), item.get('chunk'))
        enc_arg = item.get('decl')
    elif form == 'tstream':
        obj = iofake.SimTextStream(text, item['rplan'], chan)
        enc_arg = item.get('decl')
    else:
        raise ValueError(form)
    out, _ = _api_call(item, obj, enc_arg)
    stat('form_' + form)
    stat('cell_%s_%s' % (form, item['api']))
    sig = '%s|%s|%s|%s' % (form, item['api'], item.get('enc'),
                           ','.join(sorted((item.get('opts') or {}))))
    errs = dict(chan.fired)
    nontrivial = any(ord(c) > 127 for c in text) or chan.events >= 2 \
        or bool(errs)
    if form in ('stream', 'tstream'):
        sig += '|cuts%s|%s' % (_cutclass(item['rplan']),
                               '+'.join(sorted(errs)) or 'nofault')
    if canon.same(out, ref):
        return chan, sig, nontrivial
    if errs and out['k'] == 'exc':
        stat('faulted_item_failed_visibly')
        return chan, sig, nontrivial
    viols.append({
        'cls': 'form:' + form, 'item': ii, 'api': item['api'],
        'enc': item.get('enc'), 'opts': item.get('opts'),
        'faults_fired': errs,
        'got': canon.short(out), 'want': canon.short(ref),
        'msg': '%s(%s) differs from the result for the same text passed as '
               'str%s' % (item['api'], _form_desc(item),
                          ' (an I/O error was injected, but the call '
                          'returned normally with a wrong result)'
                          if errs else '')})
    return chan, sig, nontrivial


def _cutclass(plan):
    n = len(plan.get('cuts') or [])
    return '0' if n == 0 else '1-3' if n <= 3 else '4-20' if n <= 20 \
        else 'many'


def _form_desc(item):
    f = item['form']
    if f == 'bytes_enc':
        return 'bytes, encoding=%r' % item['enc']
    if f == 'bytes_utf8':
        return 'UTF-8 bytes, no encoding'
    if f == 'bytes_fallback':
        return '%s bytes (not valid UTF-8), no encoding; expected: read ' \
               'as Latin-1' % item['enc']
    if f == 'sio':
        return 'io.StringIO, encoding=%r' % item.get('enc')
    if f == 'tstream':
        return 'hand-written text stream (short reads allowed)'
    return 'text stream over a simulated device, %s' % item['enc']


def _pipe_codec(enc):
    name = codecs.lookup(enc).name
    if name in ('utf-16', 'utf-32'):
        return name + ('-le' if sys.byteorder == 'little' else '-be')
    return enc


def run_cli_item(item, text, ref, stat, viols, ii, want_bytes=False):
    from sqlparse import cli
    chan = iofake.Chan()
    fs = iofake.SimFS(chan)
    enc = item['enc']
    data = text.encode(enc)
    argv = []
    invalid = item['k'] == 'cli_invalid'
    out_enc = enc if item['out'] == 'file' else (item.get('stdout_enc')
                                                 or 'utf-8')
    # Output that one of the candidate output encodings cannot represent
    # (stdout's own, or --encoding) is the environment's limit: the tool may
    # then fail visibly - but if it reports success the output must still
    # be exact (no silent '?' or dropped characters).
    unencodable = bool(
        not invalid and ref is not None and ref['k'] == 'ok' and not (
            can_encode(ref.get('v', ''), out_enc)
            and can_encode(ref.get('v', ''), enc)))
    if unencodable:
        stat('cli_output_not_encodable_in_some_output_encoding')
    if item['in'] == 'file':
        if item.get('open_r_err') == errno.ENOENT:
            pass
        elif item.get('open_r_err'):
            fs.read_err[IN_PATH] = item['open_r_err']
        else:
            fs.files[IN_PATH] = data
        fs.rplan[IN_PATH] = item.get('rplan') or {}
        fs.buffer_size[IN_PATH] = item.get('buf') or 8192
        argv.append(IN_PATH)
        stdin = iofake.make_stdin(b'', {}, iofake.Chan())
    else:
        stdin = iofake.make_stdin(data, item.get('rplan') or {}, chan,
                                  item.get('stdin_env_enc') or 'utf-8',
                                  item.get('buf'))
        if item.get('stdin_env_enc'):
            stat('cli_stdin_environment_encoding_differs')
        argv.append('-')
    wplan = dict(item.get('wplan') or {})
    if 'fail_frac' in wplan:
        n = (ref or {}).get('n', 0) if ref and ref['k'] == 'ok' else 0
        wplan['fail_at'] = int(wplan.pop('fail_frac') * n)
        if n == 0:
            wplan.pop('fail_at')
    out_path = OUT_PATH
    if item.get('inplace') and item['in'] == 'file' and \
            not item.get('open_r_err'):
        out_path = IN_PATH
        stat('cli_inplace_items')
    if item['out'] == 'file':
        argv += ['-o', item.get('inplace') if out_path == IN_PATH
                 else OUT_PATH]
        if item.get('open_w_err'):
            fs.write_err[out_path] = item['open_w_err']
        fs.wplan[out_path] = wplan
        fs.buffer_size[out_path] = item.get('obuf') or 8192
        if out_path != IN_PATH and item.get('stale'):
            # the output file already exists with other, longer content
            fs.files[out_path] = b'-- stale output \xff\xfe\n' * 400
            stat('cli_output_file_preexisting')
        stdout, so_sink = iofake.make_stdout({}, chan, item.get(
            'stdout_enc') or 'utf-8')
        out_enc = enc
    else:
        stdout, so_sink = iofake.make_stdout(
            wplan, chan, item.get('stdout_enc') or 'utf-8', item.get('obuf'))
        out_enc = item.get('stdout_enc') or 'utf-8'
    stderr, se_sink = iofake.make_stdout({}, iofake.Chan(), 'utf-8',
                                         name='<stderr>')
    argv += list(item.get('flags') or [])
    if enc != 'utf-8' or item.get('explicit_enc') or \
            (item.get('spell') or enc) != enc:
        argv += ['--encoding', item.get('spell') or enc]
    saved = sys.stdin, sys.stdout, sys.stderr
    sys.stdin, sys.stdout, sys.stderr = stdin, stdout, stderr
    cli.open = fs.open
    rc = None
    exc = None
    try:
        try:
            rc = cli.main(argv)
        except SystemExit as e:
            rc = e.code if e.code is not None else 0
            stat('cli_systemexit')
        except Exception as e:                   # noqa
            exc = e
    finally:
        sys.stdin, sys.stdout, sys.stderr = saved
        try:
            del cli.open
        except AttributeError:
            pass
    exit_flush_failed = False
    try:
        stdout.flush()           # what interpreter shutdown would do
    except Exception:                            # noqa
        exit_flush_failed = True
    try:
        stderr.flush()
    except Exception:                            # noqa
        pass
    gc.collect()
    sink = fs.sinks.get(out_path) if item['out'] == 'file' else so_sink
    out_bytes = bytes(sink.data) if sink is not None else b''
    stray = bytes(so_sink.data) if item['out'] == 'file' else b''
    errs = dict(chan.fired)
    ok = (rc == 0 and exc is None and not exit_flush_failed)
    stat('form_cli_%s_%s' % (item['in'], item['out']))
    if wplan.get('tty') and item['out'] == 'stdout':
        stat('cli_stdout_is_a_terminal')
    if (item.get('rplan') or {}).get('tty') and item['in'] == 'stdin':
        stat('cli_stdin_is_a_terminal')
    stat('channel_events', chan.events)
    sig = 'cli|%s>%s|%s|%s|cuts%s|%s' % (
        item['in'], item['out'], enc, ','.join(sorted(item.get('opts')
                                                      or {})) or
        ('invalid' if invalid else '-'),
        _cutclass(item.get('rplan') or {}), '+'.join(sorted(errs)) or
        'nofault')
    nontrivial = any(ord(c) > 127 for c in text) or chan.events >= 2 \
        or bool(errs)
    base = {'item': ii, 'argv': argv, 'enc': enc, 'in': item['in'],
            'out': item['out'], 'faults_fired': errs, 'rc': repr(rc),
            'exc': type(exc).__name__ if exc else None}
    res = {'bytes': out_bytes.hex() if want_bytes else None, 'rc': rc}
    if invalid:
        stat('cli_invalid_items')
        if ok:
            viols.append(dict(
                base, cls='cli:invalid-accepted',
                msg='sqlformat returned 0 for invalid option values %r '
                    '(format() rejects them)' % (item['flags'],)))
        elif out_bytes or stray:
            viols.append(dict(
                base, cls='cli:invalid-output',
                msg='sqlformat produced output although the option values '
                    '%r are invalid' % (item['flags'],)))
        return chan, sig, nontrivial, res
    if ok:
        # stdout's encoding is the environment's; a front end that encodes
        # stdout with --encoding instead is equally "exactly format()'s
        # result", so either decoding may match
        encs = [out_enc] if item['out'] == 'file' or out_enc == enc \
            else [out_enc, enc]
        if item['out'] != 'file':
            # a pipe is not seekable: TextIOWrapper writes UTF-16/32 in
            # native byte order *without* a BOM there, so a leading U+FEFF
            # in the data is a character, not a signature
            encs = [_pipe_codec(e_) for e_ in encs]
        got_text = None
        derr = None
        for e_ in encs:
            try:
                t_ = out_bytes.decode(e_)
            except UnicodeDecodeError as e:
                derr = e
                continue
            if got_text is None or canon.same(
                    canon.ok_outcome('format', t_), ref):
                got_text = t_
        if got_text is None:
            viols.append(dict(
                base, cls='cli:undecodable-output',
                msg='sqlformat output is not valid %s: %s' % (out_enc, derr)))
            return chan, sig, nontrivial, res
        out = canon.ok_outcome('format', got_text)
        if stray:
            viols.append(dict(base, cls='cli:stray-stdout',
                              msg='output went to stdout although -o was '
                                  'given'))
        elif not canon.same(out, ref):
            viols.append(dict(
                base, cls='cli:wrong-output', got=canon.short(out),
                want=canon.short(ref),
                msg='sqlformat %s returned 0 but its output differs from '
                    'format(decoded text, %r)%s' % (
                        ' '.join(argv), item['opts'],
                        ' (an I/O error was injected and not reported)'
                        if errs else '')))
        if se_sink.data:
            stat('cli_ok_with_stderr_output')
    else:
        stat('cli_failed_visibly')
        if errs:
            stat('faulted_item_failed_visibly')
        elif unencodable:
            stat('cli_failed_visibly_on_unencodable_output')
        elif ref is not None and ref['k'] == 'exc':
            stat('cli_failed_like_format')
        else:
            viols.append(dict(
                base, cls='cli:unexpected-failure',
                stderr=bytes(se_sink.data)[:200].decode('utf-8', 'replace'),
                msg='sqlformat %s failed (rc=%r, exception=%s) although no '
                    'I/O error was injected and format() succeeds' % (
                        ' '.join(argv), rc,
                        type(exc).__name__ if exc else None)))
    return chan, sig, nontrivial, res


def run(spec, refs):
    import sqlparse  # noqa
    sys.setrecursionlimit(ops.AMPLE)
    text = spec['text']
    viols = []
    stats = {}
    sigs = set()
    sigs_nt = set()
    digest = 0
    cli_out = []

    def stat(k, n=1):
        stats[k] = stats.get(k, 0) + n
    for ii, item in enumerate(spec['items']):
        ref = refs.get(_ref_key_for(item, text))
        if item['k'] == 'api':
            chan, sig, nt = run_api_item(item, text, ref, stat, viols, ii)
            stat('channel_events', chan.events)
        else:
            chan, sig, nt, res = run_cli_item(item, text, ref, stat, viols,
                                              ii, spec.get('want_bytes'))
            cli_out.append(res)
        for k, v in chan.fired.items():
            stat('fault_' + k, v)
        for k, v in chan.probes.items():
            stat('probe_' + k, v)
        sigs.add(sig)
        if nt:
            sigs_nt.add(sig)
        digest = (digest * 1000003 + chan.digest) & 0xFFFFFFFFFFFFFFFF
    stat('items', len(spec['items']))
    if '\r' in text:
        stat('texts_with_carriage_return')
    if len(text) > 8192:
        stat('large_texts')
    stat('pop_' + ('fault' if spec.get('faulty') else 'clean'))
    return {'status': 'violation' if viols else 'ok', 'viol': viols,
            'stats': stats, 'sigs': sorted(sigs), 'sigs_nt': sorted(sigs_nt),
            'nontrivial': bool(sigs_nt), 'digest': '%x' % digest,
            'outs': canon.digest([sorted(stats.items())])[0],
            'sig': None, 'cli_out': cli_out if spec.get('want_bytes')
            else None}


def on_crash(spec, st):
    return {'status': 'harness', 'msg': 'child died: ' + st}


def on_timeout(spec, timeout):
    return {'status': 'violation', 'viol': [{
        'cls': 'hang', 'msg': 'the run did not finish within %.0f s of real '
        'time (it normally takes milliseconds to seconds): a front end never returned' % timeout}],
        'stats': {'hangs': 1}, 'sigs': [], 'sigs_nt': [], 'nontrivial': True}



# ---------------------------------------------------------------------------
# minimisation

def candidates(spec):
    items = spec['items']
    if len(items) > 1:
        for i in range(len(items)):
            c = copy.deepcopy(spec)
            c['items'] = [items[i]]
            yield c
    for i, it in enumerate(items):
        if it.get('opts'):
            for k in list(it['opts']):
                c = copy.deepcopy(spec)
                del c['items'][i]['opts'][k]
                if it['k'] == 'cli':
                    c['items'][i]['flags'] = _flags_for(c['items'][i]['opts'])
                yield c
        for pk in ('rplan', 'wplan'):
            p = it.get(pk)
            if p:
                for f in list(p):
                    if f == 'mb_offsets':
                        continue
                    c = copy.deepcopy(spec)
                    del c['items'][i][pk][f]
                    yield c
        for f in ('chunk', 'decl', 'buf', 'obuf'):
            if it.get(f):
                c = copy.deepcopy(spec)
                c['items'][i][f] = None
                yield c
    # shrink the text: by statement, by line, by halves, by character
    text = spec['text']
    parts = []
    for sep in (';', '\n', ' '):
        if sep in text:
            parts = text.split(sep)
            for j in range(len(parts)):
                t2 = sep.join(parts[:j] + parts[j + 1:])
                if t2 != text and _still_encodable(spec, t2):
                    c = copy.deepcopy(spec)
                    c['text'] = t2
                    _fix_plans(c)
                    yield c
    n = len(text)
    if n > 1:
        for a, b in ((0, n // 2), (n // 2, n)):
            t2 = text[:a] + text[b:]
            if _still_encodable(spec, t2):
                c = copy.deepcopy(spec)
                c['text'] = t2
                _fix_plans(c)
                yield c
        if n <= 60:
            for j in range(n):
                t2 = text[:j] + text[j + 1:]
                if _still_encodable(spec, t2):
                    c = copy.deepcopy(spec)
                    c['text'] = t2
                    _fix_plans(c)
                    yield c


def _flags_for(opts):
    argv = []
    for key, val in opts.items():
        for a, o in FLAG_TABLE + REINDENT_SUB:
            if o == {key: val}:
                argv += a
                break
    return argv


def _still_encodable(spec, t2):
    for it in spec['items']:
        e = it.get('enc')
        if e and not can_encode(t2, e):
            return False
        if it.get('form') == 'bytes_fallback':
            try:
                t2.encode(e).decode('utf-8')
                return False
            except UnicodeDecodeError:
                pass
    return can_encode(t2, spec['enc'])


def _fix_plans(c):
    for it in c['items']:
        for pk in ('rplan',):
            p = it.get(pk)
            if p:
                n = len(c['text']) if it.get('form') == 'tstream' else \
                    len(c['text'].encode(it['enc']))
                if p.get('cuts'):
                    p['cuts'] = [x for x in p['cuts'] if x < n]
                if p.get('fail_at') is not None and n:
                    p['fail_at'] = min(p['fail_at'], n - 1)
                p.pop('mb_offsets', None)


def viol_class(result):
    v = result.get('viol') or []
    return v[0]['cls'] if v else None


def match_known(ent, spec, result):
    m = ent.get('match') or {}
    v = (result.get('viol') or [{}])[0]
    if m.get('cls') and v.get('cls') != m['cls']:
        return False
    if m.get('text_contains') and m['text_contains'] not in spec.get(
            'text', ''):
        return False
    return bool(m)


# ---------------------------------------------------------------------------
# extra phase: stub fidelity against the real file system and a real
# `python -m sqlparse` subprocess with real pipes

def extra_phase(tier, seed, ws, agg, run_spec_on):
    import os
    import shutil
    import subprocess
    import tempfile
    from sim.boot import REPO
    n = 12 if tier == 'quick' else 60
    out = {'fidelity_cli_items': 0, 'fidelity_mismatches': 0,
           'fidelity_examples': []}
    w = ws[0]
    tmp = tempfile.mkdtemp(prefix='simfid.', dir='/dev/shm')
    try:
        k = 0
        idx = 0
        while k < n and idx < n * 30:
            spec = w.ask({'cmd': 'gen', 'check': CHECK, 'seed': seed,
                          'idx': idx * 3, 'tier': tier})['spec']
            idx += 1
            items = [it for it in spec['items'] if it['k'] == 'cli'
                     and not any(x in it for x in ('open_r_err',
                                                   'open_w_err'))]
            if not items or spec['faulty']:
                continue
            spec['items'] = items[:1]
            spec['want_bytes'] = True
            r = run_spec_on(w, spec)
            if r.get('status') != 'ok' or not r.get('cli_out') or \
                    r['cli_out'][0].get('rc') != 0:
                continue      # e.g. output not encodable on this stdout
            it = items[0]
            sim_bytes = bytes.fromhex(r['cli_out'][0]['bytes'] or '')
            data = spec['text'].encode(it['enc'])
            inp = os.path.join(tmp, 'in%d.sql' % k)
            outp = os.path.join(tmp, 'out%d.sql' % k)
            argv = [sys.executable, '-m', 'sqlparse']
            if it['in'] == 'file':
                with open(inp, 'wb') as f:
                    f.write(data)
                argv.append(inp)
                stdin_data = None
            else:
                argv.append('-')
                stdin_data = data
            if it['out'] == 'file':
                argv += ['-o', outp]
            argv += it['flags']
            if it['enc'] != 'utf-8':
                argv += ['--encoding', it['enc']]
            env = dict(os.environ)
            env['PYTHONIOENCODING'] = it.get('stdout_enc') or 'utf-8'
            env['PYTHONPATH'] = REPO
            env['PYTHONDONTWRITEBYTECODE'] = '1'
            p = subprocess.run(argv, input=stdin_data, capture_output=True,
                               cwd=REPO, env=env, timeout=120)
            if it['out'] == 'file':
                try:
                    with open(outp, 'rb') as f:
                        real = f.read()
                except OSError:
                    real = b''
            else:
                real = p.stdout
            out['fidelity_cli_items'] += 1
            if p.returncode != 0 or real != sim_bytes:
                out['fidelity_mismatches'] += 1
                agg.harness.append({
                    'idx': spec['idx'],
                    'msg': 'stub fidelity: real subprocess/file system run '
                           'of %r gave rc=%d and %d bytes, simulated run '
                           'gave %d bytes; stderr=%r' % (
                               argv[3:], p.returncode, len(real),
                               len(sim_bytes), p.stderr[-300:])})
            elif len(out['fidelity_examples']) < 3:
                out['fidelity_examples'].append(
                    {'argv': argv[3:], 'bytes': len(real)})
            k += 1
    finally:
        shutil.rmtree(tmp, ignore_errors=True)
    return out


TIERS = {'quick': 22000, 'thorough': 600000}
WALL_CAP = {'quick': 240, 'thorough': 3300}
DET_SAMPLE = {'quick': 24, 'thorough': 100}

RULE = (
    "A run is one forked, pristine process pushing one seeded text (seeded "
    "SQL grammar in ASCII/Latin/Cyrillic/CJK alphabets with or without "
    "backslashes, multi-line tokens, encoding-signature look-alikes, exotic "
    "separators; corpus scripts; the repo's test files; texts over 8192 "
    "characters; CR only through the forms without a text-mode file layer) "
    "in one encoding able to represent it through 3-6 front-end items: "
    "bytes + encoding, UTF-8 bytes, non-UTF-8 bytes without encoding "
    "(expected: Latin-1), StringIO, a TextIOWrapper over a simulated raw "
    "device, a hand-written short-read text stream, or the sqlformat "
    "command line reading a simulated file/stdin and writing simulated "
    "stdout (pipe or terminal) / -o file (also in place, also "
    "pre-existing), with seeded chunk boundaries (biased into multi-byte "
    "characters), EINTR, short writes, and - in the fault population "
    "(every third run) - reported I/O errors at open/read/write/close. Oracle: every item equals the str-path result from a pristine "
    "process; under an injected error the item must fail visibly or still "
    "be exact. Non-trivial item: text has non-ASCII characters, or the "
    "channel saw >= 2 raw operations, or a fault fired. Distinct: distinct "
    "(form, api/flags option-key set, encoding, chunk-pattern class, "
    "faults fired) tuples; distinct_nontrivial counts tuples of "
    "non-trivial items only.")

PROBES = ['probe_multibyte_char_split_across_reads', 'probe_short_read',
          'probe_three_or_more_raw_reads', 'probe_short_write',
          'fault_read_error_after_some_data', 'fault_read_error_after_no_data',
          'fault_write_error_ENOSPC', 'fault_write_error_EPIPE',
          'fault_close_error', 'fault_open_read_error_ENOENT',
          'fault_open_read_error_EACCES', 'fault_open_write_error_EACCES',
          'fallback_with_backslash', 'form_bytes_fallback', 'form_stream',
          'form_tstream', 'large_texts',
          'form_cli_file_stdout', 'form_cli_stdin_stdout',
          'form_cli_file_file', 'form_cli_stdin_file', 'cli_invalid_items',
          'cli_inplace_items', 'cli_stdout_is_a_terminal',
          'cli_stdin_is_a_terminal',
          'faulted_item_failed_visibly']

COMPONENTS = {
    'real': ['all of sqlparse incl. sqlparse.cli.main and argparse',
             'io.BufferedReader/BufferedWriter/TextIOWrapper and the codecs '
             '(incremental decoding, newline handling, EINTR retry, '
             'short-write loops)', 'a sample of fault-free CLI items is '
             'repeated with a real `python -m sqlparse` subprocess, real '
             'pipes and real files under /dev/shm (stub fidelity)'],
    'stub': ['raw devices (SimRaw/SimSink: chunking, EINTR, errors)',
             'file namespace and open() (SimFS, installed as '
             'sqlparse.cli.open)', 'sys.stdin/sys.stdout/sys.stderr '
             'objects (real io layers over stub devices)']}

ASSUMPTIONS = [
    'str/bytes/StringIO forms are a differential check between pure calls, '
    'not simulation; only the stream and CLI forms meet simulated devices',
    'texts contain no CR: newline translation in text-mode files is '
    "Python's, not sqlparse's",
    'only faults a kernel reports to the application are injected (no '
    'silent corruption below the API)',
    'locale encoding of the simulated process is UTF-8; stdout encoding is '
    'UTF-8 or the input encoding',
    'sampling: a clean batch is evidence over the seeds run']


def evidence(tier, seed, agg, meta):
    from sim import evid
    cells = {k[5:]: v for k, v in agg.stats.items() if k.startswith('cell_')}
    return evid.build(CHECK, tier, seed, LEVEL, agg, meta, RULE, PROBES,
                      COMPONENTS, ASSUMPTIONS, {'form_api_cells': cells})
