"""Evidence file assembly shared by the three checks."""


def build(check, tier, seed, level, agg, meta, rule, probes_expected,
          real_vs_stub, assumptions, extra_cov=None):
    wall = meta['wall_s']
    stats = dict(agg.stats)
    warnings = []
    for p in probes_expected:
        if not stats.get(p):
            warnings.append('reach probe %s stuck at zero' % p)
    cov = {
        'evaluations': agg.n,
        'distinct_nontrivial': len(agg.sigs_nt),
        'distinct_signatures': len(agg.sigs),
        'rule': rule,
        'samples': agg.samples[:3] or [{'note': 'no sample kept'}],
        'runs_per_hour': round(agg.n / wall * 3600) if wall else 0,
        'populations': agg.by_pop,
        'counters': {k: stats[k] for k in sorted(stats)},
        'simulated_time': {
            'unit': 'scheduler steps (traced sqlparse source lines executed '
                    'by simulated threads) and channel events (raw device '
                    'operations); sqlparse has no clock or timer',
            'scheduler_steps': stats.get('steps', 0),
            'channel_events': stats.get('channel_events', 0)},
        'determinism_selftest': {
            'reruns_compared': meta['det_compared'],
            'divergences': meta['det_divergences'],
            'how': 'sampled run indices re-executed on another worker with '
                   'the same PYTHONHASHSEED, on one with a different '
                   'PYTHONHASHSEED and in a freshly started interpreter; '
                   'event-log digests / outcomes compared'},
        'cross_environment': {
            'hashseeds': meta['hashseeds'],
            'reference_keys': meta['refs'],
            'keys_compared_across_hashseeds': meta['crossenv_compared'],
            'differences': meta['crossenv_diffs']},
        'workers': meta['workers'],
        'slowest_runs': sorted(agg.slow, reverse=True)[:8],
        'phase_end_times_s': meta.get('phases'),
        'runs_skipped_by_wall_cap': meta['skipped'],
        'known_finding_hits': meta['known_hits'],
        'components': real_vs_stub,
        'probe_warnings': warnings,
        'exhaustive': False,
    }
    if meta.get('extra'):
        cov['extra_phase'] = meta['extra']
    if extra_cov:
        cov.update(extra_cov)
    return {
        'property_id': check,
        'tier': tier,
        'seed': int(seed) if str(seed).lstrip('-').isdigit() else 0,
        'level': level,
        'coverage': cov,
        'assumptions': assumptions,
        'wall_s': round(wall, 2),
        'violations': meta['reported'],
    }
