"""Seeded baton-passing scheduler over real threads.

Exactly one simulated thread runs at any moment; every other one is parked
on its private gate (a raw ``_thread`` lock).  Pre-emption points are
``sys.settrace`` line events of frames whose code lives under
``/repo/sqlparse/`` and, optionally, ``sys.monitoring`` INSTRUCTION events of
the code objects of ``sqlparse.lexer`` (except its hot loops).  At each point
the *policy* (a pure function of the run's PRNG or an explicit recorded
schedule) decides who runs next, so that one spec is one execution.

``threading.Lock``/``RLock`` are replaced by SimLock/SimRLock factories
before sqlparse is imported: inside a simulation blocking on such a lock is a
scheduler state (the thread is descheduled; "nobody runnable" is a detected
deadlock); outside a simulation they behave like ordinary locks.
"""
import _thread
import math
import sys
import threading

_real_allocate = _thread.allocate_lock
_orig_Lock = threading.Lock
_orig_RLock = threading.RLock

_tl = threading.local()          # .tid for simulated threads
_cur = None                      # the active Sched, if any


class SimInterrupt(BaseException):
    """Asynchronous interruption injected by the simulator."""


class SimDeadlock(BaseException):
    """A thread tried to block on a plain lock it already holds itself:
    outside a simulation nobody else can ever release it."""


class SimAbort(BaseException):
    """Tears down a simulated thread when a run is being aborted."""


# --------------------------------------------------------------------------
# locks

class SimLock:
    def __init__(self):
        self._real = _real_allocate()
        self._owner = None        # tid of simulated owner, or 'ext'
        self._ident = None        # thread ident of an 'ext' owner

    def _sim(self):
        s = _cur
        if s is None:
            return None, None
        tid = getattr(_tl, 'tid', None)
        if tid is None:
            return None, None
        return s, tid

    def acquire(self, blocking=True, timeout=-1):
        s, tid = self._sim()
        if s is None:
            me = _thread.get_ident()
            if self._owner == 'ext' and self._ident == me and blocking \
                    and (timeout is None or timeout < 0):
                raise SimDeadlock('lock already held by this thread')
            ok = self._real.acquire(blocking, timeout)
            if ok:
                self._owner = 'ext'
                self._ident = me
            return ok
        s.n_lock_acq += 1
        first = True
        while self._owner is not None:
            if not blocking or (timeout is not None and timeout >= 0):
                # no simulated clock: a timed acquire that would block fails
                return False
            if first:
                s.n_lock_blocked += 1
                first = False
            s.block(tid, self)
        self._owner = tid
        return True

    def release(self):
        s, tid = self._sim()
        if s is None:
            self._owner = None
            self._real.release()
            return
        if self._owner is None:
            raise RuntimeError('release unlocked lock')
        self._owner = None
        s.wake(self)

    def locked(self):
        return self._owner is not None

    def __enter__(self):
        self.acquire()
        return True

    def __exit__(self, *a):
        self.release()

    def _at_fork_reinit(self):
        self._real = _real_allocate()
        self._owner = None


class SimRLock:
    def __init__(self):
        self._real = _orig_RLock()
        self._owner = None
        self._count = 0

    def _sim(self):
        s = _cur
        if s is None:
            return None, None
        tid = getattr(_tl, 'tid', None)
        if tid is None:
            return None, None
        return s, tid

    def acquire(self, blocking=True, timeout=-1):
        s, tid = self._sim()
        if s is None:
            return self._real.acquire(blocking, timeout)
        s.n_lock_acq += 1
        if self._owner == tid:
            self._count += 1
            return True
        first = True
        while self._owner is not None:
            if not blocking or (timeout is not None and timeout >= 0):
                return False
            if first:
                s.n_lock_blocked += 1
                first = False
            s.block(tid, self)
        self._owner = tid
        self._count = 1
        return True

    def release(self):
        s, tid = self._sim()
        if s is None:
            return self._real.release()
        if self._owner != tid:
            raise RuntimeError('cannot release un-acquired lock')
        self._count -= 1
        if self._count == 0:
            self._owner = None
            s.wake(self)

    def __enter__(self):
        self.acquire()
        return True

    def __exit__(self, *a):
        self.release()

    # Condition support (outside simulation only)
    def _is_owned(self):
        s, tid = self._sim()
        if s is None:
            return self._real._is_owned()
        return self._owner == tid

    def _release_save(self):
        return self._real._release_save()

    def _acquire_restore(self, x):
        return self._real._acquire_restore(x)

    def _at_fork_reinit(self):
        self._real = _orig_RLock()
        self._owner = None
        self._count = 0


def install_lock_factories():
    threading.Lock = SimLock
    threading.RLock = SimRLock


# --------------------------------------------------------------------------
# scheduler

class Sched:
    """One simulated multi-thread execution.

    policy: dict
      {"kind": "random", "p": float}
      {"kind": "pct", "changes": [global steps], "prio": [per-thread]}
      {"kind": "explicit", "sw": [[tid, lstep, next_tid], ...]}
      {"kind": "seq"}                     run threads to completion in order
    """

    def __init__(self, nthreads, policy, rng, pkg_prefix, file_ids,
                 step_budget, instr=False):
        self.n = nthreads
        self.policy = policy
        self.kind = policy['kind']
        self.rng = rng
        self.pkg_prefix = pkg_prefix
        self.file_ids = file_ids
        self.step_budget = step_budget
        self.instr = instr
        self.gates = [_real_allocate() for _ in range(nthreads)]
        for g in self.gates:
            g.acquire()
        self.done_gate = _real_allocate()
        self.done_gate.acquire()
        self.state = ['runnable'] * nthreads   # runnable | blocked | done
        self.blocked_on = [None] * nthreads
        self.cur = None
        self.step = 0
        self.lstep = [0] * nthreads
        self.int_at = [None] * nthreads       # local step at which to raise
        self.int_fired = [0] * nthreads
        self.digest = 0
        self.realised = []                    # [tid, lstep, next, kind]
        self.sig = 0                          # schedule signature
        self.n_switch = 0
        self.n_lock_acq = 0
        self.n_lock_blocked = 0
        self.n_instr_points = 0
        self.probes = {}
        self.fatal = None
        self.aborting = False
        self.stackinfo = [frozenset()] * nthreads
        self.in_api = [False] * nthreads
        self.watch_lock = None                # lock whose holder we probe
        self._next_switch = None
        self._dirty = True
        if self.kind == 'random':
            self._p = policy['p']
            self._draw_gap()
        elif self.kind == 'pct':
            self._prio = list(policy['prio'])
            self._changes = sorted(policy['changes'])
            self._ci = 0
            self._dirty = True
        elif self.kind == 'coldline':
            # single pre-emption of thread 0 when it first reaches a given
            # source location; every other thread then runs to completion
            self._cold = (policy['file'], policy['line'])
            self._cold_fired = False
        elif self.kind == 'explicit':
            self._sw = {}
            for tid, ls, nxt in policy['sw']:
                self._sw.setdefault((tid, ls), []).append(nxt)
        from sim.boot import with_lines
        self.with_lines = with_lines()
        self.tracers = [self._make_tracer(t) for t in range(nthreads)]

    # ---- policy -----------------------------------------------------------
    def _draw_gap(self):
        u = self.rng.random()
        p = self._p
        if p >= 1.0:
            gap = 1
        else:
            gap = 1 + int(math.log(1.0 - u) / math.log(1.0 - p))
        self._next_switch = self.step + gap

    def _runnable(self, exclude=None):
        return [t for t in range(self.n)
                if self.state[t] == 'runnable' and t != exclude]

    def _choose_preempt(self, tid):
        """Return next tid (may equal tid = no switch) at a pre-emption point."""
        k = self.kind
        if k == 'random':
            if self.step < self._next_switch:
                return tid
            self._draw_gap()
            others = self._runnable(exclude=tid)
            if not others:
                return tid
            return others[self.rng.randrange(len(others))]
        if k == 'explicit':
            lst = self._sw.get((tid, self.lstep[tid]))
            if lst:
                nxt = lst.pop(0)
                if 0 <= nxt < self.n and self.state[nxt] == 'runnable':
                    return nxt
            return tid
        if k == 'pct':
            if self._ci < len(self._changes) and \
                    self.step >= self._changes[self._ci]:
                while self._ci < len(self._changes) and \
                        self.step >= self._changes[self._ci]:
                    self._ci += 1
                    self._prio[tid] = min(self._prio) - 1
            elif not self._dirty:
                return tid
            self._dirty = False
            best = tid
            for t in self._runnable():
                if self._prio[t] > self._prio[best]:
                    best = t
            return best
        return tid

    def _choose_forced(self, tid):
        """tid just blocked or finished (or None at start): pick a runnable."""
        cands = self._runnable()
        if not cands:
            return None
        k = self.kind
        if k == 'random':
            return cands[self.rng.randrange(len(cands))]
        if k == 'pct':
            return max(cands, key=lambda t: self._prio[t])
        if k == 'explicit':
            key = (tid, self.lstep[tid]) if tid is not None else (-1, 0)
            lst = self._sw.get(key)
            if lst:
                nxt = lst.pop(0)
                if nxt in cands:
                    return nxt
        return cands[0]

    # ---- tracing ----------------------------------------------------------
    def _make_tracer(self, tid):
        prefix = self.pkg_prefix
        file_ids = self.file_ids
        sched = self

        def local(frame, event, arg):
            if event == 'line':
                sched.point(tid, frame)
            return local

        def glob(frame, event, arg):
            fn = frame.f_code.co_filename
            if fn.startswith(prefix) and frame.f_code.co_name != '<module>':
                if fn not in file_ids:
                    file_ids[fn] = 900 + len(file_ids)
                return local
            return None
        return glob

    def point(self, tid, frame):
        try:
            self._point(tid, frame)
        except (SimInterrupt, SimAbort):
            raise
        except BaseException:                    # noqa
            import traceback
            self.die('harness', traceback.format_exc()[-1500:])

    def _point(self, tid, frame):
        self.step += 1
        ls = self.lstep[tid] = self.lstep[tid] + 1
        self.digest = (self.digest * 1000003
                       + self.file_ids[frame.f_code.co_filename] * 4096
                       + (frame.f_lineno or 0) * 8 + tid
                       ) & 0xFFFFFFFFFFFFFFFF
        if self.int_at[tid] == ls:
            if (frame.f_lineno or 0) in self.with_lines.get(
                    frame.f_code.co_filename, ()):
                self.int_at[tid] = ls + 1       # see boot.with_lines()
            else:
                self.int_at[tid] = None
                self.int_fired[tid] += 1
                self.note_interrupt(tid, frame)
                raise SimInterrupt('injected at local step %d' % ls)
        if self.step > self.step_budget:
            self.die('budget', 'step budget %d exceeded (bounded liveness)'
                     % self.step_budget)
        if self.kind == 'coldline':
            if tid == 0 and not self._cold_fired and \
                    frame.f_lineno == self._cold[1] and \
                    self.file_ids.get(frame.f_code.co_filename) == \
                    self._cold[0]:
                self._cold_fired = True
                self.probe('coldline_preemption_fired')
                others = self._runnable(exclude=0)
                if others:
                    self.switch(tid, others[self.rng.randrange(
                        len(others))], 'pre', frame)
            return
        nxt = self._choose_preempt(tid)
        if nxt != tid:
            self.switch(tid, nxt, 'pre', frame)

    def instr_point(self, code, offset):
        try:
            self._instr_point(code, offset)
        except (SimInterrupt, SimAbort):
            raise
        except BaseException:                    # noqa
            import traceback
            self.die('harness', traceback.format_exc()[-1500:])

    def _instr_point(self, code, offset):
        tid = getattr(_tl, 'tid', None)
        if tid is None or self.cur != tid:
            return
        self.n_instr_points += 1
        self.step += 1
        ls = self.lstep[tid] = self.lstep[tid] + 1
        self.digest = (self.digest * 1000003 + offset * 8 + 7
                       + tid) & 0xFFFFFFFFFFFFFFFF
        if self.int_at[tid] == ls:
            fr = sys._getframe(2)
            if (fr.f_lineno or 0) in self.with_lines.get(
                    fr.f_code.co_filename, ()) or fr.f_lineno is None:
                self.int_at[tid] = ls + 1       # see boot.with_lines()
            else:
                self.int_at[tid] = None
                self.int_fired[tid] += 1
                self.note_interrupt(tid, fr)
                raise SimInterrupt('injected at local step %d' % ls)
        nxt = self._choose_preempt(tid)
        if nxt != tid:
            self.switch(tid, nxt, 'pre', sys._getframe(2))

    def note_interrupt(self, tid, frame):
        info = self._stack(frame)
        self.probe('interrupt_fired')
        if 'lexer.py:default_initialization' in info or \
                'lexer.py:get_default_instance' in info:
            self.probe('interrupt_in_lexer_init')
        wl = self.watch_lock
        if wl is not None and wl._owner == tid:
            self.probe('interrupt_while_holding_lexer_lock')

    # ---- switching --------------------------------------------------------
    def _stack(self, frame):
        names = set()
        f = frame
        n = 0
        prefix = self.pkg_prefix
        while f is not None and n < 60:
            fn = f.f_code.co_filename
            if fn.startswith(prefix):
                base = fn[len(prefix):]
                nm = f.f_code.co_name
                names.add(base + ':' + nm)
                if nm in ('process', '_process'):
                    slf = f.f_locals.get('self')
                    if slf is not None:
                        names.add('filter:' + type(slf).__name__)
            f = f.f_back
            n += 1
        return frozenset(names)

    def probe(self, name):
        self.probes[name] = self.probes.get(name, 0) + 1

    def switch(self, tid, nxt, kind, frame=None):
        """Deschedule tid (current), run nxt."""
        self.n_switch += 1
        ls = self.lstep[tid] if tid is not None else 0
        self.realised.append([tid if tid is not None else -1, ls, nxt, kind])
        if frame is not None:
            code = frame.f_code
            loc = (self.file_ids.get(code.co_filename, 0) * 4096
                   + (frame.f_lineno or 0))
            info = self._stack(frame)
            self.stackinfo[tid] = info
            wl = self.watch_lock
            if wl is not None and wl._owner == tid:
                self.probe('descheduled_holding_lexer_lock')
            other = self.stackinfo[nxt]
            if info and other:
                self.probe('switch_both_in_api')
                both = info & other
                if 'lexer.py:get_tokens' in both:
                    self.probe('two_threads_in_get_tokens')
                if any(x.startswith('filter:') for x in both):
                    self.probe('two_threads_in_same_filter_class')
                if 'engine/grouping.py:group' in both:
                    self.probe('two_threads_in_grouping')
                if 'engine/statement_splitter.py:process' in both:
                    self.probe('two_threads_in_splitter')
        else:
            loc = 0
        self.sig = (self.sig * 1000003 + (0 if tid is None else tid + 1) * 7
                    + loc * 64 + nxt) & 0xFFFFFFFFFFFFFFFF
        self.cur = nxt
        self.gates[nxt].release()
        if tid is not None and self.state[tid] != 'done':
            self.gates[tid].acquire()
            if self.aborting:
                raise SimAbort()

    def block(self, tid, lock):
        self.state[tid] = 'blocked'
        self.blocked_on[tid] = lock
        if lock is self.watch_lock:
            self.probe('blocked_on_lexer_lock')
        nxt = self._choose_forced(tid)
        if nxt is None:
            self.die('deadlock', 'all live threads blocked: %r' % (
                [(t, self.state[t]) for t in range(self.n)],))
        f = sys._getframe(1)
        while f is not None and \
                not f.f_code.co_filename.startswith(self.pkg_prefix):
            f = f.f_back
        self.switch(tid, nxt, 'blk', f)

    def wake(self, lock):
        for t in range(self.n):
            if self.state[t] == 'blocked' and self.blocked_on[t] is lock:
                self.state[t] = 'runnable'
                self.blocked_on[t] = None
                self._dirty = True

    def thread_done(self, tid):
        self.state[tid] = 'done'
        self.stackinfo[tid] = frozenset()
        nxt = self._choose_forced(tid)
        if nxt is None:
            if all(s == 'done' for s in self.state):
                self.cur = None
                self.done_gate.release()
                return
            self.die('deadlock', 'threads blocked with no runnable thread '
                     'left: %r' % ([(t, self.state[t])
                                    for t in range(self.n)],))
        self.switch(tid, nxt, 'end')

    def die(self, kind, msg):
        """Abort the whole run from whichever thread detected the problem."""
        if self.fatal is None:
            self.fatal = {'kind': kind, 'msg': msg, 'step': self.step}
        self.aborting = True
        self.done_gate.release()
        # park forever; main will _exit the process
        lk = _real_allocate()
        lk.acquire()
        lk.acquire()

    # ---- running ----------------------------------------------------------
    def run(self, bodies, wall_timeout=60.0):
        """bodies: list of callables(tid).  Returns when all are done."""
        global _cur
        assert len(bodies) == self.n
        _cur = self
        tool = None
        if self.instr:
            tool = self._enable_instr()
        threads = []
        for tid, body in enumerate(bodies):
            th = threading.Thread(target=self._body, args=(tid, body),
                                  name='sim-%d' % tid, daemon=True)
            threads.append(th)
        for th in threads:
            th.start()
        first = self._choose_forced(None)
        self.switch(None, first, 'start')
        ok = self.done_gate.acquire(True, wall_timeout)
        if tool is not None:
            self._disable_instr(tool)
        _cur = None
        if not ok:
            self.fatal = {'kind': 'walltimeout',
                          'msg': 'simulated threads did not finish in %.0fs '
                                 'of real time' % wall_timeout,
                          'step': self.step}
        return self.fatal

    def _body(self, tid, body):
        self.gates[tid].acquire()
        if self.aborting:
            return
        _tl.tid = tid
        sys.settrace(self.tracers[tid])
        try:
            body(tid)
        except SimAbort:
            return
        finally:
            sys.settrace(None)
        self.thread_done(tid)

    def rearm(self, tid):
        """Re-install tracing after an exception raised from the tracer."""
        sys.settrace(self.tracers[tid])

    # ---- instruction-level points ------------------------------------------
    def _enable_instr(self):
        mon = sys.monitoring
        tool = 3
        try:
            mon.use_tool_id(tool, 'sqlparse-sim')
        except ValueError:
            mon.free_tool_id(tool)
            mon.use_tool_id(tool, 'sqlparse-sim')
        mon.register_callback(tool, mon.events.INSTRUCTION, self.instr_point)
        self._instr_codes = []
        lex = sys.modules['sqlparse.lexer']
        seen = set()

        def walk(code):
            if code in seen:
                return
            seen.add(code)
            if code.co_name not in ('get_tokens', 'is_keyword', '<module>'):
                self._instr_codes.append(code)
            for c in code.co_consts:
                if hasattr(c, 'co_code'):
                    walk(c)
        for name, obj in vars(lex.Lexer).items():
            f = getattr(obj, '__func__', obj)
            if hasattr(f, '__code__'):
                walk(f.__code__)
        for name, obj in vars(lex).items():
            if hasattr(obj, '__code__') and \
                    obj.__code__.co_filename.startswith(self.pkg_prefix):
                walk(obj.__code__)
        for code in self._instr_codes:
            mon.set_local_events(tool, code, mon.events.INSTRUCTION)
        return tool

    def _disable_instr(self, tool):
        mon = sys.monitoring
        for code in self._instr_codes:
            mon.set_local_events(tool, code, 0)
        mon.register_callback(tool, mon.events.INSTRUCTION, None)
        mon.free_tool_id(tool)


# --------------------------------------------------------------------------
# single-thread line counter / interrupter (for histories and references)

class LineTracer:
    """Counts traced lines of package frames in the current thread; can raise
    SimInterrupt at the k-th line, or at the first visit of the j-th distinct
    source location; records the innermost package frame of the
    interruption point."""

    def __init__(self, pkg_prefix):
        self.prefix = pkg_prefix
        self.count = 0
        self.int_at = None
        self.loc_at = None
        self.nloc = 0
        self.seen = None
        self.fired = None
        self.digest = 0
        from sim.boot import with_lines
        wl = with_lines()

        def fire(frame):
            code = frame.f_code
            stack = []
            f = frame
            while f is not None and len(stack) < 40:
                if f.f_code.co_filename.startswith(self.prefix):
                    stack.append(
                        f.f_code.co_filename[len(self.prefix):]
                        + ':' + f.f_code.co_name)
                f = f.f_back
            self.fired = {'file': code.co_filename[len(self.prefix):],
                          'func': code.co_name,
                          'line': frame.f_lineno,
                          'stack': stack}
            raise SimInterrupt('injected at line %d' % self.count)

        def local(frame, event, arg):
            if event == 'line':
                self.count += 1
                ln = frame.f_lineno
                self.digest = (self.digest * 1000003 + ln
                               ) & 0xFFFFFFFFFFFFFFFF
                if self.seen is not None:
                    k = (frame.f_code.co_filename, ln)
                    if k not in self.seen:
                        self.seen.add(k)
                        self.nloc += 1
                        if self.loc_at is not None and \
                                self.nloc >= self.loc_at:
                            if ln in wl.get(frame.f_code.co_filename, ()):
                                pass        # see boot.with_lines(): defer
                            else:
                                self.loc_at = None
                                fire(frame)
                if self.count == self.int_at:
                    if ln in wl.get(frame.f_code.co_filename, ()):
                        self.int_at += 1        # see boot.with_lines()
                    else:
                        self.int_at = None
                        fire(frame)
            return local

        def glob(frame, event, arg):
            if frame.f_code.co_filename.startswith(self.prefix) and \
                    frame.f_code.co_name != '<module>':
                return local
            return None
        self.glob = glob

    def arm(self, int_at=None, loc_at=None, count_locs=False):
        self.count = 0
        self.int_at = int_at
        self.loc_at = loc_at
        self.nloc = 0
        self.seen = set() if (loc_at is not None or count_locs) else None
        self.fired = None
        sys.settrace(self.glob)

    def disarm(self):
        sys.settrace(None)
        return self.count
