"""Worker interpreter: imports sqlparse from /repo (never calls it), then
executes run specs, each in a forked child that starts pristine.

Protocol: JSON lines on stdin (commands) and on a dup of the original stdout
(replies); fd 1 itself is pointed at stderr so nothing a run prints can
corrupt the protocol.
"""
import json
import os
import select
import signal
import sys
import time
import traceback

HERE = os.path.dirname(os.path.dirname(os.path.abspath(__file__)))
if HERE not in sys.path:
    sys.path.insert(0, HERE)

from sim import boot  # noqa: E402
from sim.forkrun import fork_eval  # noqa: E402


def _mods():
    from sim import c15, c19, c20
    return {'C15': c15, 'C19': c19, 'C20': c20}


class Ctx:
    """What check modules may use in the (pristine) worker parent."""

    def __init__(self, mods):
        self.mods = mods
        self.refs = {}            # key -> outcome (with 'steps')
        self.memo = {}            # misc memo for in_fork helpers
        self.n_ref_forks = 0
        self.hashseed = os.environ.get('PYTHONHASHSEED', '?')

    # -- run a registered helper in a pristine fork -------------------------
    def in_fork(self, modname, fn, arg, timeout=120.0):
        st, res = fork_eval(lambda: getattr(self.mods[modname], fn)(arg),
                            timeout)
        if st != 'ok':
            raise HarnessError('helper %s.%s failed: %s %r'
                               % (modname, fn, st, res))
        return res

    def ref(self, key, steps=False):
        r = self.refs.get(key)
        if r is None or (steps and 'steps' not in r):
            from sim import refmodel
            st, res = fork_eval(lambda: refmodel.compute(key, steps), 300.0)
            self.n_ref_forks += 1
            if st != 'ok':
                raise HarnessError('reference for %s failed: %s %r'
                                   % (key[:200], st, res))
            r = self.refs[key] = res
        return r


class HarnessError(Exception):
    pass


def exec_spec(ctx, spec):
    """Execute one run spec; returns the result dict."""
    mod = ctx.mods[spec['check']]
    t0 = time.monotonic()
    try:
        need_steps = 'threads' in spec
        refs = {k: ctx.ref(k, need_steps) for k in mod.needed_refs(spec)}
    except HarnessError as e:
        return {'status': 'harness', 'msg': str(e)}
    timeout = spec.get('timeout', 60.0)
    if os.environ.get('SIM_WATCHDOG'):       # testing the hang path only
        timeout = float(os.environ['SIM_WATCHDOG'])
    st, res = fork_eval(lambda: mod.run(spec, refs), timeout)
    if st == 'ok':
        res.setdefault('status', 'ok')
    elif st == 'exc':
        res = {'status': 'harness', 'msg': 'run raised in harness: ' + res}
    elif st == 'timeout':
        # a run that normally takes milliseconds to seconds did not come
        # back within the (very generous) watchdog: the library hung.  The
        # orchestrator only reports it if it reproduces in a fresh
        # interpreter, otherwise it is a harness error.
        if hasattr(mod, 'on_timeout'):
            res = mod.on_timeout(spec, timeout)
        else:
            res = {'status': 'harness',
                   'msg': 'watchdog: run exceeded %.0fs real time' % timeout}
    elif st.startswith('signal:') or st.startswith('exit:'):
        res = mod.on_crash(spec, st)
    else:
        res = {'status': 'harness', 'msg': 'child result ' + st}
    res['wall'] = round(time.monotonic() - t0, 4)
    res['hashseed'] = ctx.hashseed
    return res


def main():
    proto = os.fdopen(os.dup(1), 'w', buffering=1)
    os.dup2(2, 1)
    sys.stdout = sys.stderr
    # Pin this worker (and the children it forks) to one CPU: the baton
    # hand-off between simulated threads is then a same-core wake-up.  Under
    # 16-way load an unpinned hand-off costs ~240 us instead of ~30 us.
    try:
        cpus = sorted(os.sched_getaffinity(0))
        wid = int(os.environ.get('SIM_WID', '0'))
        os.sched_setaffinity(0, {cpus[wid % len(cpus)]})
    except (AttributeError, OSError, ValueError):
        pass
    boot.boot()
    mods = _mods()
    ctx = Ctx(mods)
    proto.write(json.dumps({'hello': os.getpid(),
                            'hashseed': ctx.hashseed}) + '\n')
    for line in sys.stdin:
        line = line.strip()
        if not line:
            continue
        cmd = json.loads(line)
        c = cmd['cmd']
        try:
            if c == 'runs':
                mod = mods[cmd['check']]
                for idx in cmd['indices']:
                    try:
                        spec = mod.gen(cmd['seed'], idx, cmd['tier'], ctx)
                        res = exec_spec(ctx, spec)
                    except HarnessError as e:
                        spec = None
                        res = {'status': 'harness', 'msg': str(e)}
                    res['idx'] = idx
                    if res.get('status') != 'ok' or cmd.get('want_spec') \
                            or res.get('sample'):
                        res['spec'] = spec
                    proto.write(json.dumps(res) + '\n')
                proto.write(json.dumps({'chunk_done': cmd.get('chunk')})
                            + '\n')
            elif c == 'spec':
                res = exec_spec(ctx, cmd['spec'])
                res['tag'] = cmd.get('tag')
                proto.write(json.dumps(res) + '\n')
            elif c == 'gen':
                mod = mods[cmd['check']]
                spec = mod.gen(cmd['seed'], cmd['idx'], cmd['tier'], ctx)
                proto.write(json.dumps({'spec': spec}) + '\n')
            elif c == 'reftable':
                import hashlib
                tab = {hashlib.sha1(k.encode()).hexdigest()[:16]:
                       [v['k'], v.get('d') or v.get('t'), k[:300]]
                       for k, v in ctx.refs.items()}
                proto.write(json.dumps({'reftable': tab,
                                        'ref_forks': ctx.n_ref_forks}) + '\n')
            elif c == 'quit':
                break
            else:
                proto.write(json.dumps({'error': 'unknown cmd'}) + '\n')
        except Exception:                        # noqa
            proto.write(json.dumps(
                {'status': 'harness', 'fatal': True,
                 'msg': traceback.format_exc()[-3000:]}) + '\n')
    proto.close()


if __name__ == '__main__':
    main()
