"""Execution of workload operations against the real sqlparse.

A *Session* lives inside one forked child.  It executes JSON ops, keeps the
handles of open parsestream generators and of earlier results, tracks
whether the default lexer configuration is in force, and returns one record
per op with a canonical outcome (sim.canon).
"""
import gc
import io
import json
import re
import sys

from sim import canon
from sim.boot import PKG
from sim.corpus import nest
from sim.sched import LineTracer, SimDeadlock, SimInterrupt

AMPLE = 30000


def depth_now():
    f = sys._getframe(1)
    n = 0
    while f is not None:
        n += 1
        f = f.f_back
    return n


class FailStream(io.TextIOBase):
    """A text stream whose read() raises OSError (device error)."""

    def __init__(self, text, errno_=5):
        self._t = text
        self._errno = errno_
        self.reads = 0

    def readable(self):
        return True

    def read(self, n=-1):
        self.reads += 1
        raise OSError(self._errno, 'simulated read error')


def materialise(inp):
    t = inp['t']
    if t == 'str':
        return inp['v']
    if t == 'nest':
        return nest(inp['c'], inp['d'])
    if t == 'words':
        # a statement with inp['n'] distinct, never-seen-before identifiers
        k = inp.get('k', 0)
        return 'select ' + ', '.join(
            'w%dx%d' % (k, i) for i in range(inp['n'])) + ' from t%d' % k
    if t == 'bytes':
        return inp['v'].encode(inp['enc'])
    if t == 'rawbytes':
        return bytes.fromhex(inp['hex'])
    if t == 'sio':
        return io.StringIO(inp['v'])
    if t == 'badtype':
        return 12345
    if t == 'failstream':
        return FailStream(inp.get('v', ''))
    raise ValueError('unknown input form %r' % (t,))


def ref_key(api, inp, opts, enc):
    return json.dumps([api, inp, opts or {}, enc], sort_keys=True,
                      ensure_ascii=True)


def raw_call(api, obj, opts, enc):
    """The bare API call; returns the raw value (fully consumed)."""
    import sqlparse
    if api == 'parse':
        return sqlparse.parse(obj, enc)
    if api == 'parsestream':
        return list(sqlparse.parsestream(obj, enc))
    if api == 'split':
        if opts:
            return sqlparse.split(obj, enc, **opts)
        return sqlparse.split(obj, enc)
    if api == 'format':
        return sqlparse.format(obj, enc, **(opts or {}))
    if api == 'tokenize':
        from sqlparse import lexer
        return list(lexer.tokenize(obj, enc))
    raise ValueError(api)


def outcome_of(api, fn):
    """Run fn() and canonicalise value or exception (Exception only)."""
    try:
        v = fn()
    except Exception as e:                      # noqa
        return canon.exc_outcome(e), None
    o = canon.ok_outcome(api, v)
    if api in ('parse', 'parsestream'):
        o['sd'] = [canon.digest([canon.dump_tree(s), s.get_type()])[0]
                   for s in v]
    return o, v


LIMIT_DELTA = [0]


def interp_state():
    """Interpreter-global settings a library call has no business leaving
    changed (the recursion limit is tracked separately)."""
    import gc as _gc
    import locale
    import os
    import signal
    import threading
    try:
        loc = locale.setlocale(locale.LC_CTYPE)
    except Exception:                            # noqa
        loc = None
    try:
        sigint = repr(signal.getsignal(signal.SIGINT))
    except Exception:                            # noqa
        sigint = None
    return {'gc_enabled': _gc.isenabled(), 'gc_threshold':
            list(_gc.get_threshold()), 'gc_frozen': _gc.get_freeze_count(),
            'switchinterval': sys.getswitchinterval(), 'cwd': os.getcwd(),
            'locale_ctype': loc, 'sigint': sigint,
            'threads': threading.active_count(),
            'stdout_id': id(sys.stdout), 'stderr_id': id(sys.stderr),
            'excepthook': repr(sys.excepthook),
            'int_max_str_digits': sys.get_int_max_str_digits()}


def state_diff(a, b):
    return {k: [a[k], b[k]] for k in a if a[k] != b.get(k)}


def call_with_headroom(fn, H, P):
    """Call fn() with only ~H Python frames of stack left, after P frames of
    padding recursion (so the same head-room is realised at different
    absolute recursion limits).  The interpreter's own recursion check
    raises the real RecursionError.

    Only the harness's own change of the limit is undone afterwards: if the
    code under test leaves the interpreter's recursion limit different from
    what it found, that difference is kept in force (as it would be in a
    real process) and reported in LIMIT_DELTA[0]."""
    def pad(n):
        if n > 0:
            return pad(n - 1)
        old = sys.getrecursionlimit()
        d = depth_now()
        mine = d + H + (old - AMPLE if old > AMPLE else 0)
        sys.setrecursionlimit(mine)
        try:
            return fn()
        finally:
            delta = sys.getrecursionlimit() - mine
            LIMIT_DELTA[0] = delta
            sys.setrecursionlimit(old + delta)
    LIMIT_DELTA[0] = 0
    return pad(P)


class Session:
    def __init__(self):
        self.gens = {}            # handle -> dict(gen, api, key, got, dirty)
        self.results = []         # raw values of earlier parse calls
        self.default_config = True
        self.config_epoch = 0     # bumped by every reconfiguration op
        self.tracer = LineTracer(PKG)
        self.records = []
        self.stats = {}
        sys.setrecursionlimit(AMPLE)

    def stat(self, k, n=1):
        self.stats[k] = self.stats.get(k, 0) + n

    # ------------------------------------------------------------------ ops
    def do(self, op):
        kind = op['op']
        rec = getattr(self, 'op_' + kind)(op)
        rec = rec or {}
        rec['op'] = kind
        self.records.append(rec)
        return rec

    def op_call(self, op):
        api, inp, opts, enc = op['api'], op['inp'], op.get('opts'), \
            op.get('enc')
        fault = op.get('fault')
        rec = {'api': api, 'key': ref_key(api, inp, opts, enc),
               'default_config': self.default_config,
               'epoch': self.config_epoch,
               'expect': op.get('expect', 'ref')}
        try:
            obj = materialise(inp)
        except Exception as e:                  # noqa
            rec['out'] = canon.exc_outcome(e)
            rec['materialise_failed'] = True
            return rec

        def fn():
            return raw_call(api, obj, opts, enc)

        if fault is None:
            try:
                out, val = outcome_of(api, fn)
            except SimDeadlock as e:
                out, val = {'k': 'deadlock', 'm': str(e)}, None
        elif fault['kind'] == 'interrupt':
            self.tracer.arm(fault.get('at'), fault.get('loc'))
            try:
                try:
                    out, val = outcome_of(api, fn)
                finally:
                    n = self.tracer.disarm()
                rec['lines'] = n
            except SimInterrupt:
                out, val = {'k': 'int'}, None
                rec['int_site'] = self.tracer.fired
                self.stat('interrupt_fired')
                site = self.tracer.fired or {}
                stk = site.get('stack', [])
                if any(s.startswith('lexer.py:default_init') or
                       s.startswith('lexer.py:get_default_instance')
                       for s in stk):
                    self.stat('interrupt_in_lexer_init')
                if any(s.startswith('utils.py:offset') or
                       s.startswith('utils.py:indent') or
                       s.startswith('filters/reindent.py') or
                       s.startswith('filters/aligned_indent.py')
                       for s in stk):
                    self.stat('interrupt_in_indent_filter')
                if any(s.startswith('engine/statement_splitter.py')
                       for s in stk):
                    self.stat('interrupt_in_splitter')
                if any(s.startswith('engine/grouping.py') for s in stk):
                    self.stat('interrupt_in_grouping')
        elif fault['kind'] == 'headroom':
            H, P = fault['H'], fault.get('P', 0)
            try:
                out, val = outcome_of(
                    api, lambda: call_with_headroom(fn, H, P))
            except RecursionError as e:         # from pad() itself
                out, val = canon.exc_outcome(e), None
            if out['k'] == 'exc' and out['t'] in ('SQLParseError',
                                                 'RecursionError'):
                self.stat('headroom_fired')
        else:
            raise ValueError(fault)
        rec['out'] = out
        rec['faulted'] = fault is not None
        if api == 'parse' and val is not None and len(self.results) < 8:
            self.results.append(val)
        return rec

    # lazy pipelines
    def op_gen_open(self, op):
        import sqlparse
        inp = op['inp']
        obj = materialise(inp)
        g = sqlparse.parsestream(obj, op.get('enc'))
        self.gens[op['h']] = {
            'gen': g, 'key': ref_key('parse', inp, None, op.get('enc')),
            'got': [], 'dirty': not self.default_config, 'state': 'open'}
        return {'h': op['h']}

    def _advance(self, h, n, fault=None):
        ent = self.gens.get(h)
        rec = {'h': h}
        if ent is None or ent['state'] != 'open':
            rec['skipped'] = True
            return rec
        if not self.default_config:
            ent['dirty'] = True
        cnt = 0
        armed = False
        if fault and fault.get('kind') == 'interrupt':
            self.tracer.arm(fault.get('at'), fault.get('loc'))
            armed = True
        try:
            try:
                while n is None or cnt < n:
                    s = next(ent['gen'])
                    ent['got'].append(
                        canon.digest([canon.dump_tree(s),
                                      s.get_type()])[0])
                    cnt += 1
            finally:
                if armed:
                    self.tracer.disarm()
        except StopIteration:
            ent['state'] = 'exhausted'
        except SimInterrupt:
            # an asynchronous exception kills the pipeline mid-statement
            ent['state'] = 'interrupted'
            self.stat('interrupt_fired')
            self.stat('interrupt_in_lazy_pipeline')
        except SimDeadlock as e:
            ent['state'] = 'raised'
            ent['exc'] = {'k': 'exc', 't': 'DEADLOCK', 'm': str(e)}
        except Exception as e:                  # noqa
            ent['state'] = 'raised'
            ent['exc'] = canon.exc_outcome(e)
        rec.update(key=ent['key'], got=list(ent['got']), state=ent['state'],
                   dirty=ent['dirty'], exc=ent.get('exc'))
        self.stat('gen_resumed')
        return rec

    def op_gen_next(self, op):
        return self._advance(op['h'], op.get('n', 1), op.get('fault'))

    def op_gen_finish(self, op):
        return self._advance(op['h'], None)

    def op_gen_close(self, op):
        ent = self.gens.get(op['h'])
        if ent and ent['state'] == 'open':
            ent['gen'].close()
            ent['state'] = 'closed'
            self.stat('gen_closed')
        return {'h': op['h']}

    def op_gen_throw(self, op):
        ent = self.gens.get(op['h'])
        rec = {'h': op['h']}
        if ent and ent['state'] == 'open':
            try:
                ent['gen'].throw(KeyError('thrown by caller'))
                rec['swallowed'] = True
            except KeyError:
                pass
            except StopIteration:
                rec['swallowed'] = True
            except Exception as e:              # noqa
                rec['other_exc'] = canon.exc_outcome(e)
            ent['state'] = 'thrown'
            self.stat('gen_thrown')
        return rec

    def op_gen_drop(self, op):
        ent = self.gens.pop(op['h'], None)
        if ent is not None:
            del ent
            gc.collect()
            self.stat('gen_dropped')
        return {'h': op['h']}

    # lexer reconfiguration
    def _lexer(self):
        from sqlparse.lexer import Lexer
        return Lexer.get_default_instance()

    def _mark_reconf(self):
        self.default_config = False
        self.config_epoch += 1
        for ent in self.gens.values():
            if ent['state'] == 'open':
                ent['dirty'] = True
        self.stat('reconfigured')

    def op_lex_clear(self, op):
        self._lexer().clear()
        self._mark_reconf()

    def op_lex_set_regex(self, op):
        from sqlparse import keywords, tokens
        lx = self._lexer()
        if op.get('which') == 'stock':
            rx = keywords.SQL_REGEX       # the module-level list itself
        elif op.get('which') == 'subset':
            rx = [r for r in keywords.SQL_REGEX][::2]
        elif op.get('which') == 'remap':
            rx = _remapped_rules()
        else:
            rx = [(r'ZORG\b', tokens.Keyword)] + list(keywords.SQL_REGEX)
        lx.set_SQL_REGEX(rx)
        self._mark_reconf()

    def op_lex_add_kw(self, op):
        from sqlparse import tokens
        self._lexer().add_keywords({'FROB': tokens.Keyword,
                                    'T': tokens.Keyword.DML,
                                    'A': tokens.Keyword})
        self._mark_reconf()

    def op_lex_add_stock(self, op):
        """Add one of the library's own keyword dictionaries (the module-
        level objects), as the documented way of building a custom
        configuration does after clear()."""
        from sqlparse import keywords
        self._lexer().add_keywords(getattr(keywords, op.get(
            'which', 'KEYWORDS')))
        self._mark_reconf()

    def op_lex_default_init(self, op):
        self._lexer().default_initialization()
        self.default_config = True
        self.config_epoch += 1
        self.stat('default_init')

    def op_lex_separate(self, op):
        """Configure a *separate* Lexer instance; must not affect the
        singleton."""
        from sqlparse.lexer import Lexer
        from sqlparse import tokens
        lx = Lexer()
        lx.clear()
        if op.get('which') == 'remap':
            # a dialect of its own: the library's patterns, other token types
            from sqlparse import keywords
            lx.set_SQL_REGEX(_remapped_rules())
            lx.add_keywords({'SELECT': tokens.Name, 'FROM': tokens.Keyword})
            lx.add_keywords(keywords.KEYWORDS)
            list(lx.get_tokens("select *, 1, 'x' from t where a >= 2.5;"))
            self.stat('separate_lexer_remap')
        else:
            lx.set_SQL_REGEX([(r'\w+', tokens.Name),
                              (r'\s+', tokens.Whitespace)])
            lx.add_keywords({'SELECT': tokens.Name})
            list(lx.get_tokens('select zz'))
        self.stat('separate_lexer')

    # caller-side mutation
    def op_mut_tree(self, op):
        if self.results:
            for stmt in self.results[-1]:
                for t in list(stmt.flatten())[:5]:
                    t.value = 'MUTATED'
                    t.normalized = 'MUTATED'
                stmt.tokens.clear()
            self.stat('tree_mutated')

    def op_mut_newtype(self, op):
        from sqlparse import tokens as T
        T.Token.Foo.Bar
        T.Keyword.Custom
        T.Name.Zork.Deeper
        self.stat('newtype')

    def op_re_purge(self, op):
        re.purge()
        self.stat('re_purge')

    def op_gc(self, op):
        gc.collect()


def _remapped_rules():
    """The library's own rule list with the token types of several patterns
    exchanged (a caller's dialect that reuses the stock *patterns*): anything
    that remembers a rule by its pattern alone hands these types to the
    default configuration later, or the default types to this one."""
    from sqlparse import keywords, tokens
    swap = {tokens.Wildcard: tokens.Operator,
            tokens.Number.Integer: tokens.Name,
            tokens.Number.Float: tokens.Number.Integer,
            tokens.String.Single: tokens.Literal,
            tokens.Comparison: tokens.Operator,
            tokens.Punctuation: tokens.Operator,
            tokens.Comment.Single: tokens.Comment.Multiline,
            tokens.Newline: tokens.Whitespace}
    out = []
    for rx, tt in keywords.SQL_REGEX:
        try:
            tt = swap.get(tt, tt)
        except TypeError:
            pass
        out.append((rx, tt))
    return out
