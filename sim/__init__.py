"""Deterministic simulation with fault injection for sqlparse (see /verif/DESIGN.md)."""
