"""C15 — pathological nesting is reported as SQLParseError, never a crash.

Fault enumeration over the *position* of stack exhaustion (DESIGN §4): the
interpreter's own recursion check is made to fire with H frames of head-room
left at API entry, H swept over 1 .. (frames needed for success + margin),
for seeded (construct, depth, entry point, option set, input form, lexer
state) cases; afterwards ordinary calls must still give the pristine-process
result and the process must still be alive.
"""
import copy
import json
import random
import re
import sys

from sim import canon, corpus, ops
from sim.boot import PKG

CHECK = 'C15'
LEVEL = 'fault_enumeration'
SWEEP = 64
DEEP_MEM_CAP = 1 << 30          # 1 GiB of address space per deep child
MARGIN = 30

DEPTHS_Q = [0, 1, 2, 3, 5, 8, 12, 20, 30, 45, 60]
DEPTHS_T = DEPTHS_Q + [80, 120, 200, 400]
APIS = ['parse', 'parsestream', 'split', 'format', 'format', 'format']

LAYOUT_KEYS = {'reindent', 'indent_width', 'indent_tabs', 'wrap_after',
               'comma_first', 'indent_after_first', 'indent_columns',
               'compact', 'reindent_aligned', 'strip_whitespace',
               'use_space_around_operators'}

CHEAP = ('paren', 'bracket', 'func', 'arith', 'unclosed_paren',
         'unclosed_bracket', 'unclosed_case')

FOLLOWUPS = [
    ('parse', "select a from b where c = 1", None),
    ('format', "select a, b from t where x = 1 and y in (select 1 from z)",
     {'reindent': True}),
    ('split', "select 1; select 2;", None),
    ('format', "select (a + (b * c)) from t -- c\n",
     {'keyword_case': 'upper', 'strip_comments': True}),
    ('tokenize', corpus.PROBE_I, None),
    ('format', "select case when a then 1 else 2 end from t",
     {'reindent_aligned': True}),
    ('parse', "select f(g(x)) from ((t))", None),
]


def population(idx):
    return 'sweep'


# ---------------------------------------------------------------------------
# helpers executed in pristine forks

FORM_ENCODINGS = ['utf-8', 'koi8_r', 'cp1251', 'cp1252', 'utf_8_sig',
                  'latin-1', 'utf-16']


def _form_obj(text, form):
    import io
    enc = None
    if form == 'sio':
        obj = io.StringIO(text)
    elif form == 'bytes':
        obj = text.encode('utf-8')
    elif form.startswith('bytes_enc:'):
        enc = form.split(':', 1)[1]
        obj = text.encode(enc)
    elif form == 'tstream':
        from sim import iofake
        obj = iofake.SimTextStream(text, {}, iofake.Chan())
    else:
        obj = text
    return obj, enc


def _call_fn(api, text, opts, form, consume):
    import sqlparse

    def fn():
        obj, enc = _form_obj(text, form)
        if api == 'parsestream' and consume == 'later':
            # handled by _call_fn_later(): generator made at ample stack
            return list(sqlparse.parsestream(obj, enc))
        if api == 'parsestream' and consume is not None:
            g = sqlparse.parsestream(obj, enc)
            out = []
            for _ in range(consume):
                try:
                    out.append(next(g))
                except StopIteration:
                    break
            return out
        return ops.raw_call(api, obj, opts, enc)
    return fn


def probe_threshold(arg):
    """Frames the call needs below its entry (warm lexer): the maximum
    Python frame depth reached during one execution at ample head-room,
    measured with sys.setprofile.  On the pinned tree this equals the
    smallest head-room at which the call no longer overflows (checked
    against a binary search over real head-room values for a sample of
    cases).  0 if the call fails even at ample head-room."""
    import sqlparse
    sys.setrecursionlimit(ops.AMPLE)
    api, inp, opts, form, consume = arg
    text = ops.materialise(inp)
    sqlparse.parse('select 1')
    fn = _call_fn(api, text, opts, form, consume)
    mx = [0]
    cur = [0]

    def prof(frame, event, a):
        if event == 'call':
            cur[0] += 1
            if cur[0] > mx[0]:
                mx[0] = cur[0]
        elif event == 'return':
            cur[0] -= 1
    failed = False
    sys.setprofile(prof)
    try:
        fn()
    except Exception:                            # noqa
        failed = True
    finally:
        sys.setprofile(None)
    return 0 if failed else mx[0]


# ---------------------------------------------------------------------------
# generation

def draw_case(rng, tier):
    c = rng.choice(corpus.CONSTRUCTS)
    depths = DEPTHS_T if tier == 'thorough' else DEPTHS_Q
    d = rng.choice(depths)
    if d > 60 and rng.random() < 0.5:
        d = rng.choice(DEPTHS_Q)
    if d > 120 and c not in CHEAP:
        d = 120     # grouping is ~cubic in depth for the heavier constructs
    api = rng.choice(APIS)
    opts = None
    if api == 'format':
        r = rng.random()
        if r < 0.2:
            # the two filters that keep indent/offset state while they work
            opts = dict(rng.choice([{'reindent': True},
                                    {'reindent_aligned': True}]))
        elif r < 0.3:
            # a serialiser-stage filter on top of each grouping filter
            opts = {'output_format': rng.choice(['python', 'php'])}
            opts.update(rng.choice([
                {'strip_comments': True}, {'strip_whitespace': True},
                {'use_space_around_operators': True},
                {'reindent_aligned': True}, {'reindent': True},
                {'keyword_case': 'upper'}, {'truncate_strings': 4}]))
        elif r < 0.5:
            opts = dict(rng.choice(corpus.LAYOUT_OPTS))
        elif r < 0.78:
            opts = dict(rng.choice(corpus.TARGETED_OPTS))
        else:
            opts = corpus.draw_opts(rng)
    elif api == 'split' and rng.random() < 0.3:
        opts = {'strip_semicolon': True}
    fr = rng.random()
    if fr < 0.6:
        form = 'str'
    elif fr < 0.7:
        form = 'sio'
    elif fr < 0.8:
        form = 'bytes'
    elif fr < 0.95:
        form = 'bytes_enc:' + rng.choice(FORM_ENCODINGS)
    else:
        form = 'tstream'
    consume = None
    prefix = ''
    if api == 'parsestream':
        if rng.random() < 0.5:
            prefix = rng.choice(['select 1; ', 'select 1;\n-- x\n', ''])
        if rng.random() < 0.35:
            consume = rng.choice([1, 2, 'later'])
    return {'api': api, 'inp': {'t': 'nest', 'c': c, 'd': d},
            'prefix': prefix, 'opts': opts, 'form': form,
            'consume': consume}


def _case_text_inp(case):
    if case.get('prefix'):
        return {'t': 'str', 'v': case['prefix'] + corpus.nest(
            case['inp']['c'], case['inp']['d'])}
    return case['inp']


def gen(seed, idx, tier, ctx):
    case_no, j = divmod(idx, SWEEP)
    crng = random.Random('%s/%s/case/%d' % (seed, CHECK, case_no))
    case = draw_case(crng, tier)
    state = crng.choice(['fresh', 'fresh', 'fresh', 'fresh', 'warm', 'warm',
                         'custom'])
    mode = crng.choice(['stride', 'dense', 'dense'])
    base_frac = crng.random()
    inp = _case_text_inp(case)
    pkey = ops.ref_key(case['api'], inp, case['opts'], None) + '|%s|%s' % (
        case['form'], case['consume'])
    hstar = ctx.memo.get(('c15', pkey))
    if hstar is None:
        try:
            hstar = ctx.in_fork(
                'C15', 'probe_threshold',
                [case['api'], inp, case['opts'], case['form'],
                 case['consume']], timeout=240.0)
        except Exception:                        # noqa
            hstar = -1      # probe failed: sweep a default range
        ctx.memo[('c15', pkey)] = hstar
    top = (hstar if hstar and hstar > 0 else 120) + MARGIN
    rng = random.Random('%s/%s/%d' % (seed, CHECK, idx))
    P = rng.choice([0, 0, 0, 5, 40, 300])
    if top <= SWEEP:
        # the whole range fits: every head-room value once per lap, further
        # laps repeat it at other padding depths
        H = 1 + (j % top)
        P = [0, 7, 61, 300, 1000][(j // top) % 5]
    elif mode == 'dense':
        base = int(base_frac * max(0, top - SWEEP))
        H = 1 + base + j
    else:
        width = top / float(SWEEP)
        H = 1 + int(j * width + rng.random() * width)
    calls = [dict(case, inp=inp, H=H, P=P)]
    if rng.random() < 0.25:
        c2 = draw_case(rng, 'quick')
        c2['inp'] = _case_text_inp(c2)
        c2.update(H=rng.randint(1, 400), P=rng.choice([0, 9]))
        calls.append(c2)
        if rng.random() < 0.3:
            calls.append(dict(case, inp=inp, H=max(1, H + rng.randint(-3, 3)),
                              P=0))
    fu = [FOLLOWUPS[rng.randrange(len(FOLLOWUPS))]
          for _ in range(rng.randint(2, 4))]
    # state leaked by a filter only shows when the same filter runs again:
    # always follow up with the faulted call's own entry point and options
    # on ordinary text
    same = rng.choice(corpus.RICH)
    if case['api'] == 'format':
        fu.insert(0, ('format', same, case['opts']))
    elif case['api'] == 'split':
        fu.insert(0, ('split', same, case['opts']))
    else:
        fu.insert(0, ('parse', same, None))
    if rng.random() < 0.5:
        # a leaked depth counter or a lowered limit leaves room for flat
        # statements: also follow up with nesting that is ordinary at the
        # default limit (well inside it, some of it beyond the library's own
        # documented grouping bound, where the reference raises too)
        fc = rng.choice(corpus.CONSTRUCTS)
        fd = rng.choice([12, 25, 40, 60, 90] if fc in CHEAP
                        else [8, 15, 25, 40])
        fa = rng.choice(['parse', 'format', 'split'])
        fu.insert(rng.randrange(len(fu) + 1),
                  (fa, corpus.nest(fc, fd),
                   {'reindent': True} if fa == 'format' else None))
    if rng.random() < 0.15:
        # what one failure leaves behind may only add up over several
        calls = calls + [dict(c) for c in calls[:1]] * rng.choice([1, 2, 3])
    return {'check': CHECK, 'seed': seed, 'idx': idx, 'state': state,
            're_cold': state == 'fresh' and rng.random() < 0.15,
            'calls': calls, 'hstar': hstar, 'mode': mode,
            'full': top <= SWEEP, 'top': top,
            'followups': [{'api': a, 'inp': {'t': 'str', 'v': t}, 'opts': o}
                          for a, t, o in fu],
            'timeout': 300.0}


def gen_deep(rng, tier, k):
    """Deep stratum: nesting far beyond the recursion limit, at the default
    limit and at raised limits."""
    cheap = ['paren', 'bracket', 'func', 'arith', 'unclosed_paren',
             'unclosed_bracket', 'unclosed_case']
    brk = ['paren', 'bracket', 'unclosed_paren', 'unclosed_bracket']
    quick = [(1000, 500, None), (1000, 1200, cheap), (3000, 250, None),
             (200, 300, None), (10000, 250, cheap), (1000, 6000, brk),
             (100, 800, None), (1000, 400, None), (1000, 40000, brk[:2]),
             (1000, 40000, brk[2:])]
    thorough = quick + [(1000, 3000, cheap), (1000, 20000, cheap[:4]),
                        (100, 2000, None), (1000, 1000, None),(1000, 30000, cheap), (1000, 100000, cheap[:4]),
                        (20000, 700, cheap), (50000, 1000, cheap[:4]),
                        (5000, 1500, cheap), (1000, 5000, None),
                        (3000, 600, None), (10000, 400, None)]
    table = thorough if tier == 'thorough' else quick
    limit, d, pool = table[k % len(table)]
    c = rng.choice(pool or corpus.CONSTRUCTS)
    api = rng.choice(['parse', 'split', 'format', 'parsestream'])
    opts = None
    if api == 'format':
        opts = dict(rng.choice(corpus.LAYOUT_OPTS[:6]
                               + corpus.TARGETED_OPTS[:4]))
    fu = FOLLOWUPS[:3]
    return {'check': CHECK, 'deep': True, 'limit': limit,
            'state': rng.choice(['fresh', 'warm']),
            'calls': [{'api': api, 'inp': {'t': 'nest', 'c': c, 'd': d},
                       'opts': opts, 'form': 'str', 'consume': None}],
            'followups': [{'api': a, 'inp': {'t': 'str', 'v': t}, 'opts': o}
                          for a, t, o in fu],
            'timeout': 900.0}


def needed_refs(spec):
    keys = []
    for f in spec['followups']:
        keys.append(ops.ref_key(f['api'], f['inp'], f['opts'], None))
    if not spec.get('deep'):
        for c in spec['calls']:
            if c.get('consume') in (None, 'later') and \
                    c['inp'].get('d', 0) <= 60 and \
                    len(c['inp'].get('v', '')) < 3000:
                keys.append(ops.ref_key(c['api'], c['inp'], c['opts'], None))
    return list(dict.fromkeys(keys))


# ---------------------------------------------------------------------------
# oracle helpers

def fault_site(exc):
    """(file, func) of the innermost sqlparse frame of the RecursionError
    behind *exc* (or of exc itself)."""
    err = exc
    if not isinstance(err, RecursionError):
        err = exc.__cause__ if isinstance(exc.__cause__, RecursionError) \
            else None
    if err is None:
        return None
    tb = err.__traceback__
    site = None
    outer = None
    counts = {}
    while tb is not None:
        fn = tb.tb_frame.f_code.co_filename
        if fn.startswith(PKG):
            site = (fn[len(PKG):], tb.tb_frame.f_code.co_name)
            counts[site] = counts.get(site, 0) + 1
            outer = None
        else:
            outer = (fn.rsplit('/', 1)[-1], tb.tb_frame.f_code.co_name)
        tb = tb.tb_next
    if site is None:
        return None
    return {'file': site[0], 'func': site[1],
            'mech': sorted('%s:%s' % k for k, n in counts.items() if n >= 3),
            'below': outer[0] + ':' + outer[1] if outer else None}


_ws = re.compile(r'\s+')


def check_success(call, text, val):
    """Round-trip and tree guarantees for a call that returned (evaluated at
    ample stack).  Returns a message or None."""
    api = call['api']
    if api in ('parse', 'parsestream'):
        stmts = list(val)
        joined = ''.join(canon.flat_text(s) for s in stmts)
        if call.get('consume') in (None, 'later'):
            if joined.rstrip() != text.rstrip():
                return 'parse result does not reproduce the input text'
        elif not text.startswith(joined):
            return 'partially consumed parsestream is not a prefix of input'
        for s in stmts:
            stack = [s]
            while stack:
                g = stack.pop()
                if not g.tokens:
                    return 'empty group %s in tree' % type(g).__name__
                if g.value != canon.flat_text(g):
                    return 'cached value of %s differs from its text' % (
                        type(g).__name__)
                for t in g.tokens:
                    if t.parent is not g:
                        return 'parent pointer of %r does not name its ' \
                               'containing group' % (t.value[:20],)
                    if t.is_group:
                        stack.append(t)
        return None
    if api == 'split':
        pieces = list(val)
        if any(not p.strip() for p in pieces):
            return 'split produced a blank piece'
        want = _ws.sub('', text)
        got = _ws.sub('', ''.join(pieces))
        if (call.get('opts') or {}).get('strip_semicolon'):
            want = want.replace(';', '')
            got = got.replace(';', '')
        if got != want:
            return 'split pieces do not cover the non-blank input text'
        return None
    if api == 'format':
        opts = call.get('opts') or {}
        if set(opts) <= LAYOUT_KEYS:
            a = sorted(_ws.sub('', text))
            b = sorted(_ws.sub('', val))
            if a != b:
                return 'layout-only formatting changed the non-whitespace ' \
                       'characters'
        elif set(opts) <= LAYOUT_KEYS | {'keyword_case', 'identifier_case'}:
            a = sorted(_ws.sub('', text).casefold())
            b = sorted(_ws.sub('', val).casefold())
            if a != b:
                return 'case/layout-only formatting lost or added ' \
                       'non-whitespace characters'
        return None
    return None


# ---------------------------------------------------------------------------
# execution

def _do_faulted(call, H, P):
    """Returns (kind, payload): ok/value, sqlparseerror/exc, recursion/exc,
    other/exc."""
    import sqlparse
    from sqlparse.exceptions import SQLParseError
    text = ops.materialise(call['inp'])
    fn = _call_fn(call['api'], text, call['opts'], call['form'],
                  call.get('consume'))
    if call['api'] == 'parsestream' and call.get('consume') == 'later':
        # the pipeline is set up where the stack is ample and only consumed
        # later, by a caller that is deep in its own stack
        obj, enc = _form_obj(text, call.get('form') or 'str')
        gen = sqlparse.parsestream(obj, enc)

        def fn():
            return list(gen)
    try:
        if H is None:
            v = fn()
        else:
            v = ops.call_with_headroom(fn, H, P)
        return 'ok', v, text
    except SQLParseError as e:
        return 'sqlparseerror', e, text
    except RecursionError as e:
        return 'recursion', e, text
    except Exception as e:                       # noqa
        return 'other', e, text


def _control(call, H, P):
    """The un-nested control at the same state and head-room, in a sibling
    fork: does a RecursionError escape there too?"""
    from sim.forkrun import fork_eval
    # always the plain str form: every input form has to get inside the
    # guarded region with the stack a str call needs for that
    ctl = dict(call, inp={'t': 'str', 'v': 'select 1'}, form='str')

    def go():
        k, v, _t = _do_faulted(ctl, H, P)
        return k
    st, res = fork_eval(go, 60.0)
    return res if st == 'ok' else 'ctl-' + st


def run(spec, refs):
    import sqlparse
    sys.setrecursionlimit(ops.AMPLE)
    viols = []
    stats = {}
    sigs = set()
    sigs_nt = set()

    def stat(k, n=1):
        stats[k] = stats.get(k, 0) + n
    if spec.get('re_cold'):
        re.purge()
        stat('re_cold_runs')
    pre = None
    if spec['state'] == 'warm':
        sqlparse.parse('select 1')
        sqlparse.format('select a from b', reindent=True)
    elif spec['state'] == 'custom':
        # the application has configured the shared lexer through the
        # documented API; the follow-ups are then compared with the same
        # calls made BEFORE the faulted ones (no pristine reference exists
        # for a custom configuration)
        from sqlparse import tokens as T
        from sqlparse.lexer import Lexer
        lx = Lexer.get_default_instance()
        lx.add_keywords({'T': T.Keyword, 'FOO': T.Keyword.DML,
                         'ZORG': T.Name.Builtin})
        pre = []
        for f in spec['followups']:
            obj = ops.materialise(f['inp'])
            o_, _v = ops.outcome_of(f['api'], lambda: ops.raw_call(
                f['api'], obj, f['opts'], None))
            pre.append(o_)
    stat('state_' + spec['state'])
    if spec.get('full'):
        stat('runs_of_cases_whose_whole_headroom_range_is_enumerated')
    elif spec.get('mode') == 'dense':
        stat('runs_of_cases_with_a_contiguous_64_value_window')
    if spec.get('hstar') == -1:
        stat('threshold_probe_failed')
    deep = spec.get('deep')
    for ci, call in enumerate(spec['calls']):
        optsig = ','.join(sorted((call.get('opts') or {}).keys())) or '-'
        cons = call['inp'].get('c', 'text')
        st_before = ops.interp_state()
        if deep:
            # resource envelope of the deep stratum: the pinned tree rejects
            # these inputs within a few dozen MB; the address-space cap
            # turns runaway memory growth into a MemoryError / a dead child
            # instead of an OOM-killed machine
            try:
                import resource
                cap = spec.get('mem_cap', DEEP_MEM_CAP)
                resource.setrlimit(resource.RLIMIT_AS, (cap, cap))
            except (ImportError, ValueError, OSError):
                pass
            old = sys.getrecursionlimit()
            sys.setrecursionlimit(spec['limit'])
            try:
                kind, val, text = _do_faulted(call, None, 0)
            finally:
                limit_delta = sys.getrecursionlimit() - spec['limit']
                sys.setrecursionlimit(old)
            if kind == 'other' and isinstance(val, MemoryError):
                val = MemoryError('address-space cap of %d MiB exceeded'
                                  % (spec.get('mem_cap', DEEP_MEM_CAP) >> 20))
                import gc
                gc.collect()
            H = P = None
            stat('deep_calls')
        else:
            H, P = call['H'], call.get('P', 0)
            ctl = _control(call, H, P)
            kind, val, text = _do_faulted(call, H, P)
            limit_delta = ops.LIMIT_DELTA[0]
        stat('faulted_calls')
        stat('form_' + str(call.get('form', 'str')).split(':')[0])
        stat('outcome_' + kind)
        site = None
        if kind in ('sqlparseerror', 'recursion'):
            site = fault_site(val)
        fired = kind in ('sqlparseerror', 'recursion') and site is not None
        if kind == 'sqlparseerror' and site is None and \
                not isinstance(val.__cause__, RecursionError):
            # an SQLParseError not caused by recursion (e.g. option
            # validation): not this property's business
            stat('sqlparseerror_not_recursion')
        if fired:
            stat('fault_fired')
            stat('site_%s:%s' % (site['file'], site['func']))
            if site.get('below'):
                stat('site_below_' + site['below'])
            for m in site.get('mech', ()):
                stat('mech_' + m)
        sig = '%s|%s|%s|%s|%s' % (
            (site['file'] + ':' + site['func']) if site else kind, cons,
            call['api'] + ('/part' if call.get('consume') else ''), optsig,
            spec['state'])
        sigs.add(sig)
        if fired:
            sigs_nt.add(sig)
        base = {'call_index': ci, 'api': call['api'], 'H': H, 'P': P,
                'construct': cons, 'depth': call['inp'].get('d'),
                'opts': call.get('opts'), 'state': spec['state']}
        st_diff = ops.state_diff(st_before, ops.interp_state())
        if st_diff:
            viols.append(dict(
                base, cls='interp-state-leak', changed=st_diff,
                msg='%s left interpreter-global state changed after ending '
                    'with %s: %s (e.g. a disabled garbage collector makes '
                    'every later call leak its token tree until the '
                    'process dies)' % (call['api'], kind,
                                       json.dumps(st_diff)[:200])))
        if limit_delta:
            viols.append(dict(
                base, cls='limit-leak', delta=limit_delta,
                msg='%s left the interpreter\'s recursion limit changed by '
                    '%+d after ending with %s: the limit the caller chose '
                    'no longer protects later calls' % (
                        call['api'], limit_delta, kind)))
        if kind == 'recursion':
            if deep or ctl != 'recursion':
                v = dict(base, cls='escape:RecursionError',
                         site=site, control=None if deep else ctl,
                         msg='RecursionError escaped from %s (innermost '
                             'sqlparse frame %s) although the un-nested '
                             'control at the same head-room %s'
                             % (call['api'],
                                site and site['file'] + ':' + site['func'],
                                'n/a (full limit)' if deep else
                                'ended with ' + str(ctl)))
                viols.append(v)
            else:
                stat('escape_excused_by_control')
        elif kind == 'other' and deep:
            # no ample-stack reference exists for the deep stratum: excuse
            # only an exception that the same call on 3 levels of the same
            # construct raises too (then it is not about nesting)
            small = dict(call, inp=dict(call['inp'], d=3))
            k2, v2, _t2 = _do_faulted(small, None, 0)
            if k2 == 'other' and type(v2) is type(val):
                stat('other_exception_also_at_depth_3')
            else:
                viols.append(dict(
                    base, cls='escape:' + type(val).__name__,
                    msg='%s raised %s (%s) on %s nested %d deep at '
                        'recursion limit %d; the same call at depth 3 ends '
                        'with %s' % (call['api'], type(val).__name__,
                                     str(val)[:100], cons,
                                     call['inp'].get('d'), spec['limit'],
                                     k2)))
        elif kind == 'other':
            ref = refs.get(ops.ref_key(call['api'], call['inp'],
                                       call['opts'], None))
            if ref is not None and not (ref['k'] == 'exc' and
                                        ref['t'] == type(val).__name__):
                viols.append(dict(
                    base, cls='escape:' + type(val).__name__,
                    msg='%s raised %s: %s under reduced head-room; at ample '
                        'head-room the same call gives %s'
                        % (call['api'], type(val).__name__, str(val)[:120],
                           canon.short(ref))))
            else:
                stat('other_exception_also_at_ample_or_unknown')
                stat('other_%s_%s' % (type(val).__name__, call['api']))
        elif kind == 'ok':
            ref = refs.get(ops.ref_key(call['api'], call['inp'],
                                       call['opts'], None))
            same = False
            if ref is not None and call.get('consume') in (None, 'later'):
                o = canon.ok_outcome(call['api'], val)
                same = canon.same(o, ref)
                if not same:
                    stat('success_differs_from_ample')
            if not same:
                msg = check_success(call, text, val)
                stat('success_guarantees_checked')
                if msg:
                    viols.append(dict(base, cls='bad-success', msg=msg))
    for fi, f in enumerate(spec['followups']):
        key = ops.ref_key(f['api'], f['inp'], f['opts'], None)
        obj = ops.materialise(f['inp'])
        out, _ = ops.outcome_of(
            f['api'], lambda: ops.raw_call(f['api'], obj, f['opts'], None))
        stat('followups')
        want = pre[fi] if pre is not None else refs.get(key)
        if not canon.same(out, want):
            viols.append({
                'cls': 'later-call', 'followup_index': fi, 'api': f['api'],
                'got': canon.short(out), 'want': canon.short(want),
                'msg': 'after the stack-exhausted call(s), an ordinary %s '
                       'call no longer gives %s' % (
                           f['api'], 'the pristine-process result'
                           if pre is None else 'what the same call gave '
                           'before them under the same custom lexer '
                           'configuration')})
    return {'status': 'violation' if viols else 'ok', 'viol': viols,
            'stats': stats, 'sigs': sorted(sigs), 'sigs_nt': sorted(sigs_nt),
            'nontrivial': bool(sigs_nt),
            'outs': canon.digest([sorted(stats.items()), sorted(sigs)])[0],
            'digest': canon.digest(sorted(sigs))[0],
            'sig': None, 'sample': False}


def on_crash(spec, st):
    c = spec['calls'][0]
    return {'status': 'violation', 'viol': [{
        'cls': 'crash', 'how': st,
        'msg': 'the interpreter was brought down (%s) by %s on %s depth %s'
               % (st, c['api'], c['inp'].get('c'), c['inp'].get('d'))}],
        'stats': {'crashes': 1}, 'sigs': [], 'sigs_nt': [],
        'nontrivial': True}


def on_timeout(spec, timeout):
    return {'status': 'violation', 'viol': [{
        'cls': 'hang', 'msg': 'the run did not finish within %.0f s of real '
        'time (it normally takes milliseconds to seconds): a call on nested input hung the interpreter' % timeout}],
        'stats': {'hangs': 1}, 'sigs': [], 'sigs_nt': [], 'nontrivial': True}


# ---------------------------------------------------------------------------
# extra phase: the deep stratum

def extra_phase(tier, seed, ws, agg, run_spec_on):
    n = 16 if tier == 'quick' else 96
    rng = random.Random('%s/%s/deep' % (seed, CHECK))
    specs = [gen_deep(rng, tier, k) for k in range(n)]
    for k, s in enumerate(specs):
        s.update(seed=seed, idx=10 ** 9 + k)
    pend = {}
    for k, s in enumerate(specs):
        w = ws[k % len(ws)]
        w.send({'cmd': 'spec', 'spec': s, 'tag': k})
        pend.setdefault(w, []).append(k)
    out = {'deep_runs': 0, 'deep_cases': []}
    for w, ks in pend.items():
        for k in ks:
            r = w.readline(1200.0)
            r['idx'] = specs[k]['idx']
            r['wid'] = w.wid
            r['pop'] = 'deep'
            r['spec'] = specs[k]
            agg.add(r)
            out['deep_runs'] += 1
            c = specs[k]['calls'][0]
            out['deep_cases'].append(
                [specs[k]['limit'], c['inp']['c'], c['inp']['d'], c['api'],
                 r.get('status'), r.get('wall')])
            if r.get('status') == 'violation':
                agg.viol.append(r)
            elif r.get('status') == 'harness':
                agg.harness.append(r)
    return out


# ---------------------------------------------------------------------------
# minimisation

def candidates(spec):
    calls = spec['calls']
    if len(calls) > 1:
        for i in range(len(calls)):
            c = copy.deepcopy(spec)
            del c['calls'][i]
            yield c
    if len(spec['followups']) > 1:
        for i in range(len(spec['followups'])):
            c = copy.deepcopy(spec)
            del c['followups'][i]
            yield c
    if spec.get('re_cold'):
        c = copy.deepcopy(spec)
        c['re_cold'] = False
        yield c
    if spec['state'] == 'fresh':
        c = copy.deepcopy(spec)
        c['state'] = 'warm'
        yield c
    for i, call in enumerate(calls):
        if call.get('P'):
            c = copy.deepcopy(spec)
            c['calls'][i]['P'] = 0
            yield c
        if call['inp'].get('t') == 'nest' and call['inp']['d'] > 0:
            for nd in (call['inp']['d'] // 2, call['inp']['d'] - 1):
                c = copy.deepcopy(spec)
                c['calls'][i]['inp']['d'] = nd
                yield c
        if call.get('opts'):
            for k in list(call['opts']):
                c = copy.deepcopy(spec)
                del c['calls'][i]['opts'][k]
                yield c
        if call.get('form') not in (None, 'str'):
            c = copy.deepcopy(spec)
            c['calls'][i]['form'] = 'str'
            yield c
        if not spec.get('deep') and call.get('H', 0) > 1:
            for nh in (call['H'] // 2, call['H'] - 1):
                c = copy.deepcopy(spec)
                c['calls'][i]['H'] = max(1, nh)
                yield c


def viol_class(result):
    v = result.get('viol') or []
    return v[0]['cls'].split(':')[0] if v else None


def match_known(ent, spec, result):
    return False


TIERS = {'quick': 480 * SWEEP, 'thorough': 6000 * SWEEP}
WALL_CAP = {'quick': 240, 'thorough': 3300}
DET_SAMPLE = {'quick': 24, 'thorough': 100}

RULE = (
    "A run is one forked, initially pristine process: optional warm-up, 1-3 "
    "calls made with the interpreter's own recursion check armed to fire "
    "with H frames of head-room left at API entry (after P padding frames), "
    "then 2-4 ordinary follow-up calls compared with the pristine-process "
    "reference; the recursion limit and other interpreter-global state "
    "must be unchanged after each faulted call. Cases (nesting construct x "
    "depth x entry point incl. lazily consumed parsestream x option set x "
    "input form str/StringIO/bytes/bytes+encoding/stream x fresh/warm "
    "lexer) are seeded; each case is swept over "
    "64 head-room values: a contiguous window ('dense': every frame "
    "boundary in the window) or a jittered stride over 1..threshold+30, "
    "where the success threshold is found per case by a monotone probe. A "
    "deep stratum nests 250-100000 deep at recursion limits 100-50000 "
    "under a 1 GiB address-space cap. Non-trivial: the fault actually fired (the call "
    "ended in SQLParseError caused by RecursionError, or RecursionError "
    "escaped). Distinct: distinct (innermost sqlparse frame of the "
    "overflow, construct, entry point, option-key set, lexer state) "
    "tuples; distinct_nontrivial counts tuples of fired faults only.")

SITE_PROBES = [
    'mech_engine/grouping.py:_group_matching', 'mech_engine/grouping.py:_group',
    'mech_utils.py:wrapped_f', 'mech_sql.py:flatten',
    'mech_filters/others.py:process', 'mech_filters/reindent.py:_process',
    'mech_filters/aligned_indent.py:_process',
    'site_lexer.py:get_default_instance', 'site_lexer.py:set_SQL_REGEX',
    'escape_excused_by_control',
    'outcome_ok', 'outcome_sqlparseerror', 'state_fresh', 'state_warm',
    'state_custom',
    'deep_calls', 're_cold_runs']

COMPONENTS = {
    'real': ['all of sqlparse from /repo working tree',
             "the interpreter's own recursion check (sys.setrecursionlimit("
             "depth + H)) raising the real RecursionError at the real frame",
             're module (cold-cache variant re-compiles every lexer pattern '
             'under reduced head-room)', 'process death detection by '
             'waitpid()'],
    'stub': ['caller stack depth (padding recursion P)', 'process '
             'freshness (fork of a worker that imported but never called '
             'sqlparse)']}

ASSUMPTIONS = [
    'head-room is realised through the Python-frame recursion limit; '
    'C-stack exhaustion proper is only reached by the deep stratum at '
    'raised limits (bounded by the ~cubic cost of grouping)',
    'an escaping RecursionError is excused only if the un-nested control '
    '(same entry point, options, lexer state, head-room; sibling fork) also '
    'escapes one',
    'success under reduced head-room is held to the round-trip/tree '
    'guarantees, not to equality with the ample-stack result',
    'sampling of cases; exhaustive only over the 64-value head-room window '
    'of each dense case']


def evidence(tier, seed, agg, meta):
    from sim import evid
    sites = sorted(k[5:] for k in agg.stats if k.startswith('site_')
                   and not k.startswith('site_below_'))
    mechs = sorted(k[5:] for k in agg.stats if k.startswith('mech_'))
    return evid.build(CHECK, tier, seed, LEVEL, agg, meta, RULE, SITE_PROBES,
                      COMPONENTS, ASSUMPTIONS,
                      {'cases': agg.n // SWEEP,
                       'cases_with_every_headroom_value_enumerated':
                       agg.stats.get('runs_of_cases_whose_whole_headroom_'
                                     'range_is_enumerated', 0) // SWEEP,
                       'cases_with_a_contiguous_64_value_window':
                       agg.stats.get('runs_of_cases_with_a_contiguous_64_'
                                     'value_window', 0) // SWEEP,
                       'distinct_overflow_sites': len(sites),
                       'overflow_sites': sites,
                       'recursive_mechanisms_overflowed': mechs})
