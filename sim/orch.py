"""Orchestrator: spawns the worker interpreters, hands out run indices,
collects results, runs the determinism self-test, minimises and replays
violations, matches known findings, writes the evidence file and decides the
exit status (0 held / 1 violation / 2 harness error)."""
import importlib
import json
import os
import selectors
import subprocess
import sys
import time

VERIF = os.path.dirname(os.path.dirname(os.path.abspath(__file__)))
# where evidence/ and replays/ are written (overridden by the mutant runner
# so that sensitivity experiments never touch the committed evidence)
OUT = os.environ.get('SIM_OUT_DIR') or VERIF
PY = sys.executable
NWORKERS = int(os.environ.get('SIM_WORKERS', '16'))
HASHSEEDS = ['0', '1', '4242', '31337']
CHUNK = 24
# determinism audits: one line per run with its status and log digests
DUMP = open(os.environ['SIM_DUMP_DIGESTS'], 'w') \
    if os.environ.get('SIM_DUMP_DIGESTS') else None


class Harness(Exception):
    pass


class Worker:
    def __init__(self, wid, hashseed):
        env = dict(os.environ)
        env['PYTHONHASHSEED'] = hashseed
        env['PYTHONDONTWRITEBYTECODE'] = '1'
        env['SQLPARSE_VERIF'] = '1'
        env['SIM_WID'] = str(wid)
        env.pop('PYTHONPATH', None)
        self.wid = wid
        self.hashseed = hashseed
        self.p = subprocess.Popen(
            [PY, '-u', os.path.join(VERIF, 'sim', 'worker.py')],
            cwd=VERIF, env=env, stdin=subprocess.PIPE,
            stdout=subprocess.PIPE, bufsize=0)
        self.buf = b''
        self.pending = 0
        self.queue = []

    def send(self, obj):
        self.p.stdin.write((json.dumps(obj) + '\n').encode())
        self.p.stdin.flush()

    def readline(self, timeout):
        """Blocking read of one protocol line (used outside the main loop)."""
        deadline = time.monotonic() + timeout
        while b'\n' not in self.buf:
            left = deadline - time.monotonic()
            if left <= 0:
                raise Harness('worker %d: no reply in %.0fs' % (self.wid,
                                                                timeout))
            sel = selectors.DefaultSelector()
            sel.register(self.p.stdout, selectors.EVENT_READ)
            ev = sel.select(min(left, 5.0))
            sel.close()
            if ev:
                b = os.read(self.p.stdout.fileno(), 1 << 20)
                if not b:
                    raise Harness('worker %d died (exit %r)'
                                  % (self.wid, self.p.poll()))
                self.buf += b
        line, self.buf = self.buf.split(b'\n', 1)
        return json.loads(line)

    def ask(self, obj, timeout=600.0):
        self.send(obj)
        return self.readline(timeout)

    def close(self):
        try:
            self.send({'cmd': 'quit'})
        except Exception:                        # noqa
            pass
        try:
            self.p.stdin.close()
        except Exception:                        # noqa
            pass
        try:
            self.p.wait(timeout=10)
        except Exception:                        # noqa
            self.p.kill()


def spawn_workers(n):
    ws = [Worker(i, HASHSEEDS[i % len(HASHSEEDS)]) for i in range(n)]
    for w in ws:
        hello = w.readline(120.0)
        if 'hello' not in hello:
            raise Harness('worker %d bad handshake %r' % (w.wid, hello))
    return ws


def load_known():
    p = os.path.join(VERIF, 'known_findings.json')
    if not os.path.exists(p):
        return {'open': [], 'fixed': []}
    with open(p) as f:
        return json.load(f)


class Agg:
    def __init__(self):
        self.n = 0
        self.stats = {}
        self.sigs = set()
        self.sigs_nt = set()
        self.by_pop = {}
        self.samples = []
        self.viol = []
        self.harness = []
        self.steps = 0
        self.walls = 0.0
        self.slow = []

    def add(self, res):
        self.n += 1
        st = res.get('stats') or {}
        for k, v in st.items():
            if isinstance(v, (int, float)):
                self.stats[k] = self.stats.get(k, 0) + v
        sig = res.get('sig')
        sigs = res.get('sigs') or ([sig] if sig else [])
        for s in sigs:
            self.sigs.add(s)
            if res.get('nontrivial'):
                self.sigs_nt.add(s)
        for s in res.get('sigs_nt') or []:
            self.sigs_nt.add(s)
        pop = res.get('pop')
        if pop:
            d = self.by_pop.setdefault(pop, {'runs': 0, 'nontrivial': 0,
                                             'cpu_s': 0.0})
            d['runs'] += 1
            d['cpu_s'] = round(d['cpu_s'] + res.get('wall', 0), 3)
            if res.get('nontrivial'):
                d['nontrivial'] += 1
        self.walls += res.get('wall', 0)
        self.slow.append((res.get('wall', 0), res.get('idx'), pop))
        if len(self.slow) > 64:
            self.slow.sort(reverse=True)
            del self.slow[12:]


def group_of(i):
    """Which hash-seed group executes run index i: a pure function of i (so
    the PYTHONHASHSEED a run sees is reproducible), rotated per block so
    that populations selected by i % k are spread over all groups.  Within a
    group (workers with identical interpreters) indices are handed out
    dynamically."""
    n = len(HASHSEEDS)
    return (i + i // 16) % n


def run_batch(check, tier, seed, indices, ws, mod, agg, keep=(), max_viol=12,
              want_samples=3, wall_cap=None, progress=None):
    ng = len(HASHSEEDS)
    queues = {g: [] for g in range(ng)}
    for i in indices:
        queues[group_of(i)].append(i)
    sel = selectors.DefaultSelector()
    for w in ws:
        w.pending = 0
        sel.register(w.p.stdout, selectors.EVENT_READ, w)
    sample_idx = set(indices[:want_samples])
    t0 = time.monotonic()
    state = {'stop': False}

    def feed(w):
        q = queues[w.wid % ng]
        if state['stop'] or not q:
            return False
        n = CHUNK if len(q) > CHUNK * 8 else max(1, min(4, len(q)))
        chunk = q[:n]
        del q[:n]
        w.send({'cmd': 'runs', 'check': check, 'seed': seed, 'tier': tier,
                'indices': chunk,
                'want_spec': bool(sample_idx & set(chunk))})
        w.pending += 1
        return True

    active = 0
    for w in ws:
        if feed(w):
            active += 1
    results = {}
    while active:
        evs = sel.select(10.0)
        if wall_cap and time.monotonic() - t0 > wall_cap:
            state['stop'] = True
        for key, _ in evs:
            w = key.data
            b = os.read(w.p.stdout.fileno(), 1 << 20)
            if not b:
                raise Harness('worker %d died during batch (exit %r)'
                              % (w.wid, w.p.poll()))
            w.buf += b
            while b'\n' in w.buf:
                line, w.buf = w.buf.split(b'\n', 1)
                obj = json.loads(line)
                if 'chunk_done' in obj:
                    w.pending -= 1
                    if not feed(w):
                        active -= 1
                    continue
                if obj.get('fatal'):
                    raise Harness('worker %d: %s' % (w.wid, obj.get('msg')))
                obj['wid'] = w.wid
                w.nres = getattr(w, 'nres', 0) + 1
                w.tlast = time.monotonic() - t0
                w.cpu = getattr(w, 'cpu', 0.0) + obj.get('wall', 0)
                obj['pop'] = obj.get('pop') or (
                    mod.population(obj['idx'])
                    if hasattr(mod, 'population') else None)
                if obj['idx'] in keep:
                    results[obj['idx']] = obj
                if DUMP is not None:
                    DUMP.write(json.dumps([obj['idx'], obj.get('status'),
                                           obj.get('outs'), obj.get('digest'),
                                           obj.get('sig')]) + '\n')
                agg.add(obj)
                if obj['idx'] in sample_idx and obj.get('spec') and \
                        len(agg.samples) < want_samples:
                    agg.samples.append(_sample(obj))
                if obj['status'] == 'violation':
                    agg.viol.append(obj)
                    if len(agg.viol) >= max_viol:
                        state['stop'] = True
                elif obj['status'] == 'harness':
                    agg.harness.append(obj)
                    if len(agg.harness) >= 5:
                        state['stop'] = True
                if progress and agg.n % progress == 0:
                    sys.stderr.write('[%s] %d runs, %d viol, %.0fs\n' % (
                        check, agg.n, len(agg.viol), time.monotonic() - t0))
    for w in ws:
        sel.unregister(w.p.stdout)
    sel.close()
    skipped = sum(len(q) for q in queues.values())
    if os.environ.get('SIM_PROGRESS'):
        for w in ws:
            sys.stderr.write('worker %2d hs=%s runs=%d busy=%.1fs last=%.1fs\n' % (
                w.wid, w.hashseed, getattr(w, 'nres', 0),
                getattr(w, 'cpu', 0.0), getattr(w, 'tlast', 0.0)))
    return results, skipped


def _sample(obj):
    spec = obj.get('spec') or {}
    s = json.dumps(spec)
    if len(s) > 3000:
        spec = {'truncated_json': s[:3000]}
    return {'idx': obj['idx'], 'status': obj['status'], 'spec': spec,
            'stats': obj.get('stats'), 'sig': obj.get('sig')}


# ---------------------------------------------------------------------------
# minimisation / replay

def run_spec_on(w, spec, tag=None):
    return w.ask({'cmd': 'spec', 'spec': spec, 'tag': tag}, timeout=900.0)


def minimise(mod, w, spec, result, budget_runs=400, budget_s=150.0):
    """Greedy delta debugging over mod.candidates(spec) while a violation of
    the same class persists."""
    cls = mod.viol_class(result)
    t0 = time.monotonic()
    if hasattr(mod, 'to_explicit'):
        s2 = mod.to_explicit(spec, result)
        if s2 is not spec:
            s2['want_realised'] = True
            r2 = run_spec_on(w, s2)
            if r2.get('status') == 'violation' and mod.viol_class(r2) == cls:
                spec, result = s2, r2
    runs = 0
    improved = True
    while improved and runs < budget_runs and \
            time.monotonic() - t0 < budget_s:
        improved = False
        for cand in mod.candidates(spec):
            runs += 1
            if runs >= budget_runs or time.monotonic() - t0 >= budget_s:
                break
            r = run_spec_on(w, cand)
            if r.get('status') == 'violation' and mod.viol_class(r) == cls:
                spec, result = cand, r
                improved = True
                break
    return spec, result, runs


def known_match(mod, known, spec, result):
    for ent in known.get('open', []):
        if ent.get('property') != mod.CHECK:
            continue
        if hasattr(mod, 'match_known') and mod.match_known(ent, spec, result):
            return ent
    return None


def write_replay(check, spec, result, hashseed, name):
    d = os.path.join(OUT, 'replays')
    os.makedirs(d, exist_ok=True)
    path = os.path.join(d, name)
    with open(path, 'w') as f:
        json.dump({'property': check, 'hashseed': hashseed, 'spec': spec,
                   'violation': result.get('viol'),
                   'how': '%s %s %s --replay %s' % (
                       PY, os.path.join(VERIF, 'simcheck.py'), check, path)},
                  f, indent=1)
    return path


def fresh_confirm(spec, hashseed, mod, cls):
    """Re-run a spec in a freshly started interpreter."""
    w = Worker(99, hashseed)
    try:
        w.readline(120.0)
        r = run_spec_on(w, spec)
    finally:
        w.close()
    return r.get('status') == 'violation' and mod.viol_class(r) == cls, r


def replay(check, path):
    mod = importlib.import_module('sim.' + check.lower())
    with open(path) as f:
        rp = json.load(f)
    w = Worker(0, str(rp.get('hashseed', '0')))
    try:
        w.readline(120.0)
        r = run_spec_on(w, rp['spec'])
    finally:
        w.close()
    if r.get('status') == 'violation':
        for v in r['viol']:
            print('  %s: %s' % (v.get('cls'), v.get('msg')))
            if v.get('got'):
                print('    got : %s' % v['got'][:300])
                print('    want: %s' % v.get('want', '')[:300])
        print('VIOLATION property=%s replay=%s' % (check, path))
        return 1
    if r.get('status') == 'harness':
        print('HARNESS-ERROR %s' % r.get('msg'))
        return 2
    print('replay of %s: property held' % path)
    return 0


# ---------------------------------------------------------------------------
# determinism self-test

def determinism_test(check, tier, seed, sample, results, ws, mod):
    """Each sampled index again on another worker with the same hash seed
    (log digest must be identical), on a worker with a different hash seed
    (outcomes identical) and in a freshly started interpreter."""
    div = []
    nh = len(HASHSEEDS)
    fresh = {hs: Worker(100 + i, hs) for i, hs in enumerate(HASHSEEDS)}
    for w in fresh.values():
        w.readline(120.0)
    jobs = {}            # worker -> list of (idx, kind)
    for idx in sample:
        base = results.get(idx)
        if base is None or base.get('status') == 'harness':
            continue
        if base['wid'] >= len(ws):
            continue
        w0 = base['wid']
        hs = ws[w0].hashseed
        for kind, w in (('same-hashseed', ws[(w0 + nh) % len(ws)]),
                        ('other-hashseed', ws[(w0 + 1) % len(ws)]),
                        ('fresh-interpreter', fresh[hs])):
            jobs.setdefault(w, []).append((idx, kind))
    for w, lst in jobs.items():
        w.send({'cmd': 'runs', 'check': check, 'seed': seed, 'tier': tier,
                'indices': [i for i, _k in lst]})
    compared = 0
    for w, lst in jobs.items():
        for idx, kind in lst:
            r = w.readline(900.0)
            base = results[idx]
            compared += 1
            keys = ['status', 'outs', 'sig', 'digest'] \
                if kind != 'other-hashseed' else ['status', 'outs']
            for k in keys:
                if r.get(k) != base.get(k):
                    div.append({'idx': idx, 'kind': kind, 'field': k,
                                'a': base.get(k), 'b': r.get(k)})
        done = w.readline(60.0)
        assert 'chunk_done' in done, done
    for w in fresh.values():
        w.close()
    return compared, div


def crossenv_test(ws):
    """Reference tables computed under different PYTHONHASHSEEDs must
    agree (DESIGN 6.4)."""
    tabs = []
    for w in ws:
        r = w.ask({'cmd': 'reftable'}, 120.0)
        tabs.append((w.hashseed, r['reftable']))
    seen = {}
    diffs = []
    compared = 0
    for hs, tab in tabs:
        for h, (k, d, key) in tab.items():
            if h in seen:
                hs0, k0, d0 = seen[h]
                if hs0 != hs:
                    compared += 1
                if (k0, d0) != (k, d):
                    diffs.append({'key': key, 'hashseed_a': hs0,
                                  'hashseed_b': hs, 'a': [k0, d0],
                                  'b': [k, d]})
            else:
                seen[h] = (hs, k, d)
    return compared, diffs, len(seen)


# ---------------------------------------------------------------------------

def main(check, tier, seed, runs_override=None):
    t0 = time.monotonic()
    mod = importlib.import_module('sim.' + check.lower())
    known = load_known()
    nruns = runs_override or mod.TIERS[tier]
    indices = list(range(nruns))
    agg = Agg()
    ws = spawn_workers(NWORKERS)
    phases = {'spawn_s': round(time.monotonic() - t0, 2)}
    exit_code = 0
    lines = []
    try:
        nsamp = mod.DET_SAMPLE[tier]
        step = max(1, len(indices) // max(1, nsamp))
        sample = indices[::step][:nsamp]
        results, skipped = run_batch(
            check, tier, seed, indices, ws, mod, agg, keep=set(sample),
            wall_cap=mod.WALL_CAP[tier],
            progress=2000 if os.environ.get('SIM_PROGRESS') else None)
        phases['batch_s'] = round(time.monotonic() - t0, 2)
        extra = {}
        if hasattr(mod, 'extra_phase'):
            extra = mod.extra_phase(tier, seed, ws, agg, run_spec_on) or {}
        # determinism self-test
        sample = [i for i in sample if i in results]
        det_n, det_div = determinism_test(check, tier, seed, sample, results,
                                          ws, mod)
        phases['det_s'] = round(time.monotonic() - t0, 2)
        ce_n, ce_div, nrefs = crossenv_test(ws)
        phases['crossenv_s'] = round(time.monotonic() - t0, 2)
        # violations
        reported = []
        known_hits = {}
        seen_cls = {}
        for v in sorted(agg.viol, key=lambda r: r['idx']):
            cls = (mod.viol_class(v), v.get('pop'))
            ent = known_match(mod, known, v.get('spec'), v)
            if ent is not None:
                known_hits.setdefault(ent['id'], []).append(v['idx'])
                continue
            if cls in seen_cls:
                seen_cls[cls].append(v['idx'])
                continue
            seen_cls[cls] = [v['idx']]
            w = ws[v['wid']]
            spec, res, nmin = minimise(mod, w, v['spec'], v)
            ok, r2 = fresh_confirm(spec, w.hashseed, mod, mod.viol_class(v))
            if not ok:
                # fall back to the unminimised spec
                ok0, r0 = fresh_confirm(v['spec'], w.hashseed, mod,
                                        mod.viol_class(v))
                if ok0:
                    spec, res = v['spec'], r0
                else:
                    agg.harness.append({
                        'idx': v['idx'], 'msg': 'violation did not '
                        'reproduce in a fresh interpreter (nondeterminism '
                        'in harness?)'})
                    continue
            ent = known_match(mod, known, spec, res)
            if ent is not None:
                known_hits.setdefault(ent['id'], []).append(v['idx'])
                continue
            path = write_replay(check, spec, res, w.hashseed,
                                '%s-seed%s-run%d.json' % (check, seed,
                                                          v['idx']))
            reported.append({'idx': v['idx'], 'replay': path,
                             'viol': res.get('viol'), 'min_runs': nmin})
        for d in ce_div:
            path = os.path.join(OUT, 'replays',
                                '%s-crossenv-%d.json' % (check, len(reported)))
            os.makedirs(os.path.dirname(path), exist_ok=True)
            with open(path, 'w') as f:
                json.dump({'property': check, 'crossenv': d}, f, indent=1)
            if check == 'C20':
                reported.append({'idx': -1, 'replay': path, 'viol': [
                    {'cls': 'crossenv', 'msg': 'result depends on '
                     'PYTHONHASHSEED: %s' % json.dumps(d)[:400]}]})
        for ent in known.get('open', []):
            if ent.get('property') == check and ent['id'] in known_hits:
                lines.append('KNOWN-FINDING: property=%s %s (runs %s)' % (
                    check, ent['what'],
                    ','.join(map(str, known_hits[ent['id']][:8]))))
        for r in reported:
            for vv in (r['viol'] or [])[:3]:
                lines.append('  %s: %s' % (vv.get('cls'), vv.get('msg')))
                if vv.get('got'):
                    lines.append('    got : %s' % vv['got'][:300])
                    lines.append('    want: %s' % vv.get('want', '')[:300])
            lines.append('VIOLATION property=%s replay=%s' % (check,
                                                              r['replay']))
        if reported:
            exit_code = 1
        if det_div:
            lines.append('HARNESS-ERROR determinism self-test diverged: %s'
                         % json.dumps(det_div[:3]))
            exit_code = exit_code or 2
        if agg.harness:
            for h in agg.harness[:5]:
                lines.append('HARNESS-ERROR run %s: %s' % (
                    h.get('idx'), str(h.get('msg'))[:500]))
            exit_code = exit_code or 2
        if skipped and not reported and len(agg.viol) == 0 and \
                not agg.harness:
            lines.append('NOTE wall cap reached: %d of %d runs executed'
                         % (agg.n, nruns))
        wall = time.monotonic() - t0
        ev = mod.evidence(tier, seed, agg, {
            'wall_s': wall, 'skipped': skipped, 'det_compared': det_n,
            'det_divergences': len(det_div), 'crossenv_compared': ce_n,
            'crossenv_diffs': len(ce_div), 'refs': nrefs,
            'workers': len(ws), 'hashseeds': HASHSEEDS,
            'known_hits': {k: len(v) for k, v in known_hits.items()},
            'reported': len(reported), 'extra': extra, 'phases': phases,
            'same_class_runs': {str(k): v[:10]
                                for k, v in seen_cls.items()}})
        os.makedirs(os.path.join(OUT, 'evidence'), exist_ok=True)
        with open(os.path.join(OUT, 'evidence', check + '.json'),
                  'w') as f:
            json.dump(ev, f, indent=1)
        cov = ev['coverage']
        lines.append('%s %s seed=%s: %d runs (%d distinct non-trivial), '
                     '%d violations, %d known, %.1fs, %.0f runs/h' % (
                         check, tier, seed, agg.n,
                         cov['distinct_nontrivial'], len(reported),
                         sum(len(v) for v in known_hits.values()), wall,
                         agg.n / wall * 3600))
        for wmsg in cov.get('probe_warnings', []):
            lines.append('WARNING ' + wmsg)
    finally:
        for w in ws:
            w.close()
    for ln in lines:
        print(ln)
    return exit_code
