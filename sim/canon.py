"""Canonical, process-independent forms of sqlparse results.

An *outcome* is a small JSON-able dict:
  {"k": "ok",  "d": <sha1 of canonical json>, "p": <preview>}
  {"k": "exc", "t": <exception class name>, "m": <message prefix>}
Two outcomes are *equal* when kinds match and (ok) digests match or (exc)
class names match.
"""
import hashlib
import json


def dump_tree(tok):
    """Flat pre-order dump: [depth, class] for groups, [depth, ttype, value]
    for leaves.  Iterative and flat, so it works (and serialises) for any
    nesting depth."""
    out = []
    stack = [(tok, 0)]
    while stack:
        t, d = stack.pop()
        if getattr(t, 'is_group', False):
            out.append([d, type(t).__name__])
            for c in reversed(t.tokens):
                stack.append((c, d + 1))
        else:
            out.append([d, repr(t.ttype), t.value])
    return out


def flat_text(tok):
    """Concatenated leaf values, iteratively."""
    parts = []
    stack = [tok]
    while stack:
        t = stack.pop()
        if getattr(t, 'is_group', False):
            stack.extend(reversed(t.tokens))
        else:
            parts.append(t.value)
    return ''.join(parts)


def canon_value(api, value):
    if api in ('parse', 'parsestream'):
        out = []
        for stmt in value:
            out.append([dump_tree(stmt), stmt.get_type()])
        return out
    if api == 'split':
        return list(value)
    if api == 'format':
        return value
    if api == 'tokenize':
        return [[repr(tt), v] for tt, v in value]
    raise ValueError(api)


def digest(obj):
    s = json.dumps(obj, ensure_ascii=True, separators=(',', ':'))
    return hashlib.sha1(s.encode('ascii')).hexdigest()[:20], s


def ok_outcome(api, value):
    c = canon_value(api, value)
    d, s = digest(c)
    o = {'k': 'ok', 'd': d, 'p': s[:240]}
    if api == 'format':
        o['n'] = len(value)
        if len(value) <= 20000:
            o['v'] = value
    return o


def exc_outcome(exc):
    return {'k': 'exc', 't': type(exc).__name__, 'm': str(exc)[:160]}


def same(a, b):
    if a is None or b is None:
        return False
    if a['k'] != b['k']:
        return False
    if a['k'] == 'ok':
        return a['d'] == b['d']
    if a['k'] != 'exc':
        return False
    return a['t'] == b['t']


def short(o):
    if o is None:
        return 'None'
    if o['k'] == 'deadlock':
        return 'DEADLOCK: the call blocked for ever on a lock the calling ' \
               'thread already holds (%s)' % o.get('m')
    if o['k'] == 'int':
        return 'interrupted'
    if o['k'] == 'ok':
        return 'ok:%s %s' % (o['d'], o['p'][:120])
    return 'exc:%s(%s)' % (o['t'], o['m'][:100])
