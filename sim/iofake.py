"""Simulated devices under the *real* io stack.

SimRaw / SimSink are io.RawIOBase subclasses: the real BufferedReader /
BufferedWriter / TextIOWrapper (incremental decoders, newline handling,
EINTR retry, short-write loops) run on top of a fake device whose chunking
and faults are dictated by a plan (plain JSON).  SimFS is an in-memory file
namespace and ``fake_open`` a drop-in for ``builtins.open`` that is installed
as the module attribute ``sqlparse.cli.open``.
"""
import bisect
import errno
import io
import os


class Chan:
    """Event log shared by the devices of one item."""

    def __init__(self):
        self.events = 0
        self.fired = {}
        self.probes = {}
        self.digest = 0

    def ev(self, kind, n=0):
        self.events += 1
        self.digest = (self.digest * 1000003 + hash_kind(kind) * 131 + n
                       ) & 0xFFFFFFFFFFFFFFFF

    def fire(self, kind):
        self.fired[kind] = self.fired.get(kind, 0) + 1

    def probe(self, kind):
        self.probes[kind] = self.probes.get(kind, 0) + 1


_KINDS = {}


def hash_kind(k):
    # stable small ints (no str hash: PYTHONHASHSEED must not matter)
    v = _KINDS.get(k)
    if v is None:
        v = _KINDS[k] = sum((i + 1) * ord(c) for i, c in enumerate(k)) % 9973
    return v


class SimRaw(io.RawIOBase):
    """Readable raw device.

    plan: {"cuts": [byte offsets at which a read stops short],
           "eintr": [read-event numbers (1-based) that raise EINTR],
           "fail_at": byte offset at which reads start failing (or null),
           "errno": errno for the failure}
    """

    def __init__(self, data, plan, chan, name='<simraw>', seekable=False):
        super().__init__()
        self._seekable = seekable
        self._data = data
        self._pos = 0
        self._cuts = sorted(set(plan.get('cuts') or []))
        self._eintr = set(plan.get('eintr') or [])
        self._fail_at = plan.get('fail_at')
        self._errno = plan.get('errno') or errno.EIO
        self._chan = chan
        self._nread = 0
        self.name = name
        self._multibyte = frozenset(plan.get('mb_offsets') or ())
        self._tty = bool(plan.get('tty'))

    def readable(self):
        return True

    def seekable(self):
        # regular files are seekable, pipes are not: TextIOWrapper behaves
        # differently (BOM handling, tell snapshots) on the two
        return self._seekable

    def tell(self):
        if not self._seekable:
            raise io.UnsupportedOperation('simulated pipe is not seekable')
        return self._pos

    def seek(self, offset, whence=0):
        if not self._seekable:
            raise io.UnsupportedOperation('simulated pipe is not seekable')
        self._chan.ev('seek')
        if whence == 0:
            pos = offset
        elif whence == 1:
            pos = self._pos + offset
        else:
            pos = len(self._data) + offset
        self._pos = max(0, pos)
        return self._pos

    def fileno(self):
        raise OSError('simulated device has no file descriptor')

    def isatty(self):
        return self._tty

    def readinto(self, b):
        self._nread += 1
        ch = self._chan
        if self._nread in self._eintr:
            ch.ev('read-eintr')
            ch.probe('read_eintr')
            raise InterruptedError(errno.EINTR, 'simulated EINTR')
        pos = self._pos
        if self._fail_at is not None and pos >= self._fail_at:
            ch.ev('read-fail')
            ch.fire('read_error_after_%s' % (
                'some_data' if pos > 0 else 'no_data'))
            raise OSError(self._errno, 'simulated read error')
        end = min(len(self._data), pos + len(b))
        i = bisect.bisect_right(self._cuts, pos)
        if i < len(self._cuts) and self._cuts[i] < end:
            end = self._cuts[i]
        if self._fail_at is not None and pos < self._fail_at < end:
            end = self._fail_at
        n = end - pos
        b[:n] = self._data[pos:end]
        self._pos = end
        ch.ev('read', n)
        if n and end < len(self._data):
            ch.probe('short_read')
            if end in self._multibyte:
                ch.probe('multibyte_char_split_across_reads')
        if self._nread == 3:
            ch.probe('three_or_more_raw_reads')
        return n


class SimTextStream(io.TextIOBase):
    """A hand-written text stream (not a TextIOWrapper): read(n) returns *at
    most* n characters and may stop short at the planned cut offsets, as the
    io documentation allows; read() / read(-1) returns everything.

    plan: {"cuts": [character offsets], "fail_at": char offset or null,
           "errno": errno}
    """

    def __init__(self, text, plan, chan, name='<simtext>'):
        super().__init__()
        self._text = text
        self._pos = 0
        self._cuts = sorted(set(plan.get('cuts') or []))
        self._fail_at = plan.get('fail_at')
        self._errno = plan.get('errno') or errno.EIO
        self._chan = chan
        self.name = name

    def readable(self):
        return True

    def _take(self, end):
        ch = self._chan
        pos = self._pos
        if self._fail_at is not None and end > self._fail_at:
            if pos >= self._fail_at:
                ch.ev('tread-fail')
                ch.fire('read_error_after_%s' % (
                    'some_data' if pos > 0 else 'no_data'))
                raise OSError(self._errno, 'simulated read error')
            end = self._fail_at
        out = self._text[pos:end]
        self._pos = end
        ch.ev('tread', len(out))
        if out and end < len(self._text):
            ch.probe('short_text_read')
        return out

    def read(self, size=-1):
        n = len(self._text)
        if size is None or size < 0:
            if self._fail_at is not None and self._fail_at < n:
                # reading everything runs into the device error
                self._pos = max(self._pos, self._fail_at)
                return self._take(n)
            return self._take(n)
        end = min(n, self._pos + size)
        i = bisect.bisect_right(self._cuts, self._pos)
        if i < len(self._cuts) and self._cuts[i] < end:
            end = self._cuts[i]
        return self._take(end)

    def readline(self, size=-1):
        n = len(self._text)
        i = self._text.find('\n', self._pos)
        end = n if i < 0 else i + 1
        if size is not None and size >= 0:
            end = min(end, self._pos + size)
        return self._take(end)


class SimSink(io.RawIOBase):
    """Writable raw device.

    plan: {"short": [max bytes accepted by the n-th write event],
           "eintr": [write-event numbers that raise EINTR],
           "fail_at": byte offset at which writes start failing,
           "errno": errno, "close_errno": errno raised by close()}
    """

    def __init__(self, plan, chan, name='<simsink>', seekable=False):
        super().__init__()
        self._seekable = seekable
        self.data = bytearray()
        self._short = list(plan.get('short') or [])
        self._eintr = set(plan.get('eintr') or [])
        self._fail_at = plan.get('fail_at')
        self._errno = plan.get('errno') or errno.ENOSPC
        self._close_errno = plan.get('close_errno')
        self._chan = chan
        self._nwrite = 0
        self.name = name
        self.close_failed = False
        self._tty = bool(plan.get('tty'))

    def writable(self):
        return True

    def isatty(self):
        return self._tty

    def seekable(self):
        return self._seekable

    def tell(self):
        if not self._seekable:
            raise io.UnsupportedOperation('simulated pipe is not seekable')
        return len(self.data)

    def seek(self, offset, whence=0):
        if not self._seekable:
            raise io.UnsupportedOperation('simulated pipe is not seekable')
        pos = offset if whence == 0 else len(self.data) + offset
        if pos != len(self.data):
            raise io.UnsupportedOperation(
                'simulated file supports only appending writes')
        return pos

    def fileno(self):
        raise OSError('simulated device has no file descriptor')

    def write(self, b):
        self._nwrite += 1
        ch = self._chan
        b = bytes(b)
        if self._nwrite in self._eintr:
            ch.ev('write-eintr')
            ch.probe('write_eintr')
            raise InterruptedError(errno.EINTR, 'simulated EINTR')
        pos = len(self.data)
        if self._fail_at is not None and pos + len(b) > self._fail_at:
            room = max(0, self._fail_at - pos)
            if room == 0 or not b:
                ch.ev('write-fail')
                ch.fire('write_error_%s' % errno.errorcode.get(
                    self._errno, self._errno))
                raise OSError(self._errno, 'simulated write error')
            b = b[:room]
            ch.probe('short_write')
        if self._short:
            k = self._short.pop(0)
            if k < len(b):
                b = b[:max(1, k)]
                ch.probe('short_write')
        self.data += b
        ch.ev('write', len(b))
        return len(b)

    def close(self):
        if not self.closed:
            try:
                super().close()
            finally:
                self._chan.ev('close')
            if self._close_errno:
                self.close_failed = True
                self._chan.fire('close_error')
                raise OSError(self._close_errno, 'simulated close error')


class SimFS:
    """In-memory file namespace.

    files: path -> bytes (readable files)
    read_err: path -> errno raised by open(path) for reading
    write_err: path -> errno raised by open(path, 'w')
    rplan / wplan: path -> device plan
    """

    def __init__(self, chan, locale_encoding='utf-8'):
        self.chan = chan
        self.files = {}
        self.read_err = {}
        self.write_err = {}
        self.rplan = {}
        self.wplan = {}
        self.sinks = {}
        self.buffer_size = {}
        self.locale_encoding = locale_encoding
        self.opened = []

    def open(self, file, mode='r', buffering=-1, encoding=None, errors=None,
             newline=None, closefd=True, opener=None):
        if not isinstance(file, (str, bytes, os.PathLike)):
            raise TypeError('simulated open(): unsupported file argument %r'
                            % (file,))
        path = os.fspath(file)
        if isinstance(path, bytes):
            path = path.decode('utf-8', 'surrogateescape')
        path = os.path.normpath(path)       # aliases name the same file
        ch = self.chan
        binary = 'b' in mode
        kind = mode.replace('b', '').replace('t', '')
        self.opened.append((path, mode, encoding))
        if binary and encoding is not None:
            raise ValueError("binary mode doesn't take an encoding argument")
        if kind == 'r':
            ch.ev('open-r')
            if path in self.read_err:
                e = self.read_err[path]
                ch.fire('open_read_error_%s' % errno.errorcode.get(e, e))
                raise OSError(e, os.strerror(e), path)
            if path not in self.files:
                if path in self.sinks:
                    data = bytes(self.sinks[path].data)
                else:
                    ch.fire('open_read_error_ENOENT')
                    raise FileNotFoundError(errno.ENOENT,
                                            os.strerror(errno.ENOENT), path)
            else:
                data = self.files[path]
            raw = SimRaw(data, self.rplan.get(path, {}), ch, name=path,
                         seekable=True)
            if buffering == 0:
                if not binary:
                    raise ValueError("can't have unbuffered text I/O")
                return raw
            bs = self.buffer_size.get(path, io.DEFAULT_BUFFER_SIZE)
            if buffering > 1:
                bs = buffering
            buf = io.BufferedReader(raw, bs)
            if binary:
                return buf
            return io.TextIOWrapper(buf, encoding or self.locale_encoding,
                                    errors, newline)
        if kind in ('w', 'x', 'a'):
            ch.ev('open-w')
            if path in self.write_err:
                e = self.write_err[path]
                ch.fire('open_write_error_%s' % errno.errorcode.get(e, e))
                raise OSError(e, os.strerror(e), path)
            if kind == 'x' and (path in self.files or path in self.sinks):
                raise FileExistsError(errno.EEXIST, 'File exists', path)
            sink = SimSink(self.wplan.get(path, {}), ch, name=path,
                           seekable=True)
            if kind == 'a':
                old = self.files.get(path)
                if old is None and path in self.sinks:
                    old = bytes(self.sinks[path].data)
                if old:
                    sink.data += old
            self.files.pop(path, None)
            self.sinks[path] = sink
            if buffering == 0:
                if not binary:
                    raise ValueError("can't have unbuffered text I/O")
                return sink
            bs = self.buffer_size.get(path, io.DEFAULT_BUFFER_SIZE)
            if buffering > 1:
                bs = buffering
            buf = io.BufferedWriter(sink, bs)
            if binary:
                return buf
            return io.TextIOWrapper(buf, encoding or self.locale_encoding,
                                    errors, newline,
                                    line_buffering=(buffering == 1))
        raise ValueError('simulated open(): unsupported mode %r' % (mode,))


def make_stdin(data, plan, chan, encoding='utf-8', buffer_size=None):
    raw = SimRaw(data, plan, chan, name='<stdin>')
    buf = io.BufferedReader(raw, buffer_size or io.DEFAULT_BUFFER_SIZE)
    return io.TextIOWrapper(buf, encoding=encoding)


def make_stdout(plan, chan, encoding='utf-8', buffer_size=None,
                name='<stdout>'):
    sink = SimSink(plan, chan, name=name)
    buf = io.BufferedWriter(sink, buffer_size or io.DEFAULT_BUFFER_SIZE)
    # a terminal is line-buffered, as the interpreter sets it up
    return io.TextIOWrapper(buf, encoding=encoding,
                            line_buffering=bool(plan.get('tty'))), sink


def make_stream(data, plan, chan, encoding, buffer_size=None,
                chunk_size=None):
    """A text stream argument for parse/parsestream/split/format."""
    raw = SimRaw(data, plan, chan, name='<stream>')
    buf = io.BufferedReader(raw, buffer_size or io.DEFAULT_BUFFER_SIZE)
    tw = io.TextIOWrapper(buf, encoding=encoding)
    if chunk_size:
        tw._CHUNK_SIZE = chunk_size
    return tw
